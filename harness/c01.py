"""C01: integer DSL expressions: the real generator's code for `dest = expr`
is executed in the Coq ISA model and compared with the exact integer meaning."""
import random

from .common import Check, Err, eval_terms
from . import dsl, exprs, ebpf_exec, isa_check

ALLOPS = ["+", "-", "*", "&", "|", "^", "<<", "//", "%", ">>", "neg", "abs"]


def make_case(rng, ops=ALLOPS, depth=None, storages=("local", "array")):
    nvars = rng.randint(1, 4)
    decls, values = [], {}
    def pick_fmt():
        f = rng.choice(exprs.FMTS)
        # 15%: a variable declared with an explicit byte order (the value it holds is the same, its bytes in memory differ)
        return rng.choice("<>!") + f if rng.random() < 0.15 else f
    for k in range(nvars):
        fmt = pick_fmt()
        name = f"v{k}"
        decls.append((name, rng.choice(storages), fmt))
        values[name] = exprs.rand_value(rng, fmt)
    regs, reginit = [], {}
    for no in rng.sample([2, 3, 4, 5], rng.randint(0, 2)):
        kind = rng.choice(["r", "sr", "w", "sw"])
        regs.append((kind, no))
        reginit[no] = rng.choice(exprs.BOUNDARY64 + [rng.randint(-100, 100), rng.randrange(2 ** 64)])
    dfmt = pick_fmt()
    if rng.random() < 0.1:
        dfmt = rng.choice("<>!") + rng.choice("qQiI")
    decls.append(("d", rng.choice(storages), dfmt))
    values["d"] = exprs.rand_value(rng, dfmt)
    depth = depth if depth is not None else rng.choice([1, 1, 2, 2, 3])
    expr = exprs.rand_expr(rng, [n for n, _, _ in decls[:-1]], regs, depth, ops)
    if expr[0] == "c":
        expr = ["+", ["v", "v0"], expr]
    if rng.random() < 0.12 and ("abs" in ops or "neg" in ops):
        # unary operators directly on an operand at the ends of its range (they are rare in random trees)
        leaf = exprs.rand_leaf(rng, [n for n, _, _ in decls[:-1]], regs, allow_const=False)
        if leaf[0] == "v":
            f = [f for n, _, f in decls if n == leaf[1]][0]
            nb, sg = dsl.fmt_size(f), dsl.fmt_signed(f)
            top = 1 << (8 * nb - 1)
            values[leaf[1]] = rng.choice([-top, -top + 1, -1, top - 1] if sg else [top, top + 1, 2 * top - 1, 2 * top - 16, top - 1])
        expr = [rng.choice([o for o in ("abs", "neg") if o in ops]), leaf]
        if rng.random() < 0.3:
            expr = [rng.choice(["+", "-", "|"]), expr, exprs.rand_leaf(rng, [n for n, _, _ in decls[:-1]], regs)]
    if rng.random() < 0.08 and any(o in ops for o in (">>", "//", "%")):
        # a constant with the top bit set (an all-ones mask, the sign bit as a flag) combined with an UNSIGNED 64-bit operand, the
        # result feeding an operation whose meaning depends on signedness
        qs = [n for n, _, f in decls[:-1] if f == "Q"]
        if not qs:
            decls.insert(0, ("vq", rng.choice(storages), "Q"))
            values["vq"] = rng.choice([0x123456789abcdef0, 2 ** 64 - 1, 5, rng.randrange(2 ** 64)])
            qs = ["vq"]
        U = ["v", rng.choice(qs)]
        K = ["c", rng.choice([2 ** 64 - 1, 2 ** 63, 2 ** 64 - 16, 2 ** 63 + rng.randrange(2 ** 62), 0xff00000000000000])]
        inner = [rng.choice([o for o in ("^", "|", "&", "+", "-", "*") if o in ops] or ["+"]), U, K]
        if rng.random() < 0.3:
            inner = [inner[0], K, U]
        outer = rng.choice([o for o in (">>", "//", "%") if o in ops])
        expr = [outer, inner, ["c", rng.choice([1, 4, 31, 33, 63]) if outer == ">>" else rng.choice([3, 7, 1000, 2 ** 31 - 1])]]
    case = {"decls": decls, "values": values, "reginit": reginit, "regs": regs, "expr": expr, "dest": "d"}
    if rng.random() < 0.06:
        # base = register + constant, kept in a Python variable and extended TWICE: d is the second use
        if not any(k in ("r", "sr") for k, _ in regs):
            regs.append((rng.choice(["r", "sr"]), 2))
            reginit[2] = rng.choice([1000, 7, -5, 2 ** 31, rng.randint(-100, 100)])
        kind, no = [x for x in regs if x[0] in ("r", "sr")][0]
        base = [rng.choice(["+", "-"]), ["r", kind, no], ["c", rng.choice([8, 1, 100, 4096])]]
        case["expr"] = [rng.choice(["+", "-"]), base, ["c", rng.choice([2, 3, 16, 1000])]]
        case["shared"] = [rng.choice(["+", "-"]), rng.choice([1, 5, 64])]
        decls.insert(0, ("spare", "local", "Q"))
        values["spare"] = 0
        case.pop("vm", None)
        return case
    plain = [(n, f) for n, st_, f in decls[:-1] if st_ == "local" and len(f) == 1 and f in "bhiBHIqQ"]
    if plain and rng.random() < 0.12:
        # one local variable is read through a COMPUTED address (stack pointer + register + constant) instead of the usual stack
        # pointer + constant; signed narrow variables holding negative values preferred
        neg = [(n, f) for n, f in plain if f in "bhi"]
        n, f = rng.choice(neg or plain)
        if f in "bhi" and rng.random() < 0.7:
            values[n] = -abs(values[n]) - 1 if values[n] > -(1 << (8 * dsl.fmt_size(f) - 1)) + 1 else values[n]
        free = [r for r in (6, 7, 8) if r not in reginit]
        case["vm"] = [n, free[0], rng.choice([0, 8, 16, 40])]
        if not any(x[0] == "v" and x[1] == n for x in nodes(expr)):
            case["expr"] = [rng.choice(["+", "-", "*", ">>"]), ["v", n], rng.choice([["c", 1], ["c", 3], expr])]
    if rng.random() < 0.15:
        # the destination is a register; in most of these cases the expression reads that register itself
        # (left, right, below a unary operator or deeper in the right operand)
        if not regs:
            regs.append((rng.choice(["r", "sr", "w", "sw"]), rng.choice([2, 3, 4, 5])))
            reginit[regs[0][1]] = rng.choice([rng.randint(-100, 100), rng.randint(-100, 100), rng.randrange(2 ** 31)])
        kind, no = rng.choice(regs)
        if rng.random() < 0.25:
            # register 0 (its value is copied to d afterwards, because the program ends by loading its exit code into r0)
            if not any(n == 0 for _, n in regs):
                regs.append((kind, 0))
                reginit[0] = rng.choice([7, -7, rng.randint(-100, 100), rng.randrange(2 ** 31)])
            kind, no = [(k, n) for k, n in regs if n == 0][0]
            decls[-1] = ("d", decls[-1][1], REGFMT[kind])
        case["regdest"] = [kind, no]
        if rng.random() < 0.75:
            names = [n for n, _, _ in decls[:-1]]
            R = ["r", kind, no]
            A = exprs.rand_leaf(rng, names, regs, allow_const=False)
            B = exprs.rand_leaf(rng, names, regs)
            bin_ops = [o for o in ops if o in ("+", "-", "*", "&", "|", "^")] or ["+"]
            un_ops = [o for o in ops if o in ("neg", "abs")]
            op, op2 = rng.choice(bin_ops), rng.choice(bin_ops)
            forms = [[op, A, R], [op, R, A], [op, A, [op2, R, B]], [op, A, [op2, B, R]], [op, [op2, A, B], R]]
            if un_ops:
                u = rng.choice(un_ops)
                forms += [[op, A, [u, R]], [op, A, [op2, B, [u, R]]], [op, A, [u, [op2, R, B]]], [op, [u, R], A], [u, [op, A, R]]] * 2
            case["expr"] = rng.choice(forms)
    return case


REGFMT = {"r": "Q", "sr": "q", "w": "I", "sw": "i"}


def dest_fmt(case):
    if case.get("regdest"):
        return REGFMT[case["regdest"][0]]
    return [f for n, _, f in case["decls"] if n == case["dest"]][0]


def via_memory(case, expr):
    """the expression as it is BUILT: for cases with "vm" = [name, regno, c] the reads of that local variable go through a computed
    address (register regno holds c); model and oracle see the plain variable"""
    vm = case.get("vm")
    if not vm:
        return expr
    if expr[0] == "v" and expr[1] == vm[0]:
        return ["vm", vm[0], vm[1], vm[2]]
    if expr[0] in ("c", "v", "r"):
        return expr
    return [expr[0]] + [via_memory(case, sub) for sub in expr[1:]]


def statements(case):
    st = [["set", ["r", "r", no], ["c", v]] for no, v in sorted(case["reginit"].items())]
    if case.get("vm"):
        st.append(["set", ["r", "r", case["vm"][1]], ["c", case["vm"][2]]])
    expr_ = via_memory(case, case["expr"])
    case = dict(case, expr=expr_)
    if case.get("shared"):
        # the left operand of the expression is an object that has been extended once before (into a spare variable)
        op0, c0 = case["shared"]
        st.append(["setshared", expr_[1], [[["v", "spare"], op0, ["c", c0]], [["v", case["dest"]], expr_[0], expr_[2]]]])
        return st
    if case.get("regdest"):
        st.append(["set", ["r", case["regdest"][0], case["regdest"][1]], case["expr"]])
        if case["regdest"][1] == 0:
            st.append(["set", ["v", case["dest"]], ["r", case["regdest"][0], 0]])
    else:
        st.append(["set", ["v", case["dest"]], case["expr"]])
    return st


def layout_bytes(case, built):
    """initial stack and map contents holding the variable values"""
    stack = bytearray(built.stack_size)
    amap = bytearray(built.map_size)
    for name, (storage, fmt, addr) in built.layout.items():
        if storage in ("packet", "hash"):
            continue
        b = dsl.to_bytes(fmt, case["values"][name])
        if storage == "local":
            pos = built.stack_size + addr
            stack[pos:pos + len(b)] = b
        else:
            amap[addr:addr + len(b)] = b
    return bytes(stack), bytes(amap)


def read_var(name, built, stack, amap):
    storage, fmt, addr = built.layout[name]
    n = dsl.fmt_size(fmt)
    if storage == "local":
        pos = built.stack_size + addr
        return dsl.from_bytes(fmt, bytes(stack[pos:pos + n]))
    return dsl.from_bytes(fmt, bytes(amap[addr:addr + n]))


class GenCheck(Check):
    """shared by the generator properties: build with the real generator, run in the Coq ISA model"""
    corr_imports = ["Ebpf.Isa", "Corr.Exec", "Gen.Denote", "Corr.C01"]
    isa_programs = 60

    def execute(self, cases):
        """fills case['_built'], case['_run'] (decoded final state) for all cases; one Coq batch"""
        terms, idx = [], []
        for i, c in enumerate(cases):
            # every program is generated twice in this process (two program objects of one fresh class) and the SECOND one is
            # executed: whatever the generator remembers between programs must not change the code
            dsl.build(c["decls"], self.stmts(c), xdp_min=c.get("xdp_min"))
            b = dsl.build(c["decls"], self.stmts(c), xdp_min=c.get("xdp_min"))
            c["_built"] = b
            c["_run"] = None
            if b.error is not None:
                continue
            stack, amap = layout_bytes(c, b)
            c["_init"] = (stack, amap)
            maps = [amap] if b.map_size else []
            ms = "[" + "; ".join(ebpf_exec.cbytes(m) for m in maps) + "]"
            terms.append(f"(exec_vars {ebpf_exec.cprog(b.instrs)} {ebpf_exec.cbytes(c.get('packet', b''))} {ms} "
                         f"{ebpf_exec.czlist(c.get('oracle', []))} {ebpf_exec.cbytes(stack)})")
            idx.append(i)
        vals, log = eval_terms(self.pid, self.corr_imports, terms, shard=100)
        for i, v in zip(idx, vals):
            cases[i]["_run"] = v
        return log

    def stmts(self, case):
        return statements(case)


def nodes(x):
    yield x
    if x[0] not in ("c", "v", "r"):
        for sub in x[1:]:
            yield from nodes(sub)


def env_of(case):
    return exprs.Env({n: (s, f, case["values"][n]) for n, s, f in case["decls"]}, case["reginit"])


def k_signed_divmod(case, o):
    """a // or % that the DSL treats as signed (an operand is signed) with a negative operand value"""
    env = env_of(case)
    for n in nodes(case["expr"]):
        if n[0] in ("//", "%") and exprs.signed_of(n, env):
            for sub in n[1:]:
                vals, _, _ = exprs.meaning(sub, env, 64)
                if any(v < 0 for v in vals):
                    return True
    return False


def k_wreg_upper(case, o):
    """a w/sw register operand whose 64-bit content is not the extension of its low 32 bits, or a negative sw
    register (a copy made by a 32-bit move loses the sign)"""
    env = env_of(case)
    for n in nodes(case["expr"]):
        if n[0] == "r" and n[1] in ("w", "sw"):
            c = case["reginit"][n[2]] % (1 << 64)
            sc = c - (1 << 64) if c >= 1 << 63 else c
            if sc != env.value(n) or (n[1] == "sw" and env.value(n) < 0):
                return True
    return False


def k_abs_unsigned_top(case, o):
    """abs of an unsigned operand whose value has bit 63 set"""
    env = env_of(case)
    for n in nodes(case["expr"]):
        if n[0] == "abs" and not exprs.signed_of(n[1], env):
            vals, _, _ = exprs.meaning(n[1], env, 64)
            if any(v >= 1 << 63 for v in vals):
                return True
    return False


class C01(GenCheck):
    pid = "C01"
    props_file = "Props/C01.v"
    technique = "Coq theorems about the width/sign propagation model of the generator (denote_impl = exact value under the range precondition) + execution of the REAL generated bytecode in the Coq ISA model (itself validated against the kernel) on random/boundary trees and values"
    trusted = ["coq/Ebpf/Isa.v (ISA semantics; cross-checked each run against BPF_PROG_TEST_RUN when permitted)",
               "harness/sim_kernel.py only provides the map file descriptor during program construction"]
    assumptions = []
    known_classes = {"signed_divmod": k_signed_divmod, "wreg_upper_bits": k_wreg_upper, "abs_unsigned_top_bit": k_abs_unsigned_top}

    def gen_cases(self):
        n = 500 if self.tier == "quick" else 8000
        out = []
        while len(out) < n:
            c = make_case(self.rng)
            if self.sane(c["expr"]):
                out.append(c)
        # directed, on their own stream: a register destination that the expression reads on BOTH sides of one operator, the left
        # side being a compound expression (random trees reach this shape in one or two cases of 500)
        import random
        rng = random.Random(self.seed + 1101)
        for i in range(30 if self.tier == "quick" else 400):
            kind, no = rng.choice(["r", "sr", "w", "sw"]), rng.choice([2, 3, 4, 5])
            R, B = ["r", kind, no], rng.choice([["v", "v0"], ["c", rng.randint(1, 9)]])
            ops2 = ["+", "-", "*", "|", "^", "&"]
            op, op2, op3 = rng.choice(ops2), rng.choice(ops2), rng.choice(ops2)
            expr = rng.choice([[op, [op2, R, B], R], [op, [op2, B, R], R], [op, [op2, R, B], [op3, R, ["c", rng.randint(1, 5)]]],
                               [op, [op2, R, B], [op3, ["v", "v0"], R]], [op, [op2, [op3, R, B], ["c", 3]], R]])
            out.append({"decls": [("v0", rng.choice(["local", "array"]), rng.choice("BHIQbhiq")), ("d", "local", "Q")],
                        "values": {"v0": rng.randint(0, 100), "d": 0}, "reginit": {no: rng.randint(2, 60)}, "regs": [(kind, no)],
                        "expr": expr, "dest": "d", "regdest": [kind, no]})
        return out

    @staticmethod
    def sane(expr):
        """constant sub-trees are evaluated by Python before the DSL sees them; a tree whose folding gives a
        constant outside the 64-bit world (or no number at all) is not a DSL expression of the property"""
        try:
            f = C01.fold(expr)
        except Exception:      # noqa
            return False

        def consts(x):
            if x[0] == "c":
                yield x[1]
            elif x[0] not in ("v", "r"):
                for t in x[1:]:
                    yield from consts(t)
        def unfolded(x):
            if x[0] in ("c", "v", "r"):
                return False
            return all(t[0] == "c" for t in x[1:]) or any(unfolded(t) for t in x[1:])
        return not unfolded(f) and all(isinstance(c, int) and -(1 << 70) < c < (1 << 70) for c in consts(f))

    def prepare(self, cases):
        return self.execute(cases)

    def extra_checks(self):
        return [isa_check.check(self.seed, 80 if self.tier == "quick" else 600)]

    def nontrivial(self, case, o):
        return not isinstance(o, Err) and self.expected(case)[1] and len(list(nodes(case["expr"]))) >= 3

    def rule(self):
        return ("random statements `d = expr` (15%: the destination is a register that the expression itself reads - left, right, below a unary operator): 1-4 operand variables of random formats (b B h H i I q Q, 15% with an explicit byte order < > !, local or array-map), 0-2 registers (r/sr/w/sw) with "
                "boundary contents, constants from the full 64-bit range, trees of depth 1-3 over + - * // % & | ^ << >> neg abs, boundary-heavy operand values; "
                "built by the real generator, executed in the Coq ISA model; checked when the range precondition holds (always for ring-only trees); "
                "non-trivial = checked and at least 3 nodes")

    def distribution(self, cases, observed):
        d = {"checked": 0, "outside_precondition": 0, "generator_refused": 0, "ring_only": 0, "with_registers": 0, "register_destination": 0}
        for c, o in zip(cases, observed):
            if isinstance(o, Err):
                d["generator_refused"] += 1
                continue
            chk = self.expected(c)[1]
            d["checked" if chk else "outside_precondition"] += 1
            d["ring_only"] += exprs.ops_of(c["expr"]) <= exprs.RING
            d["with_registers"] += bool(c["regs"])
            d["register_destination"] += bool(c.get("regdest"))
        return d

    OPN = {"+": "OAdd", "-": "OSub", "*": "OMul", "//": "ODiv", "%": "OMod", "&": "OAnd", "|": "OOr", "^": "OXor",
           "<<": "OLsh", ">>": "ORsh"}

    @staticmethod
    def fold(x):
        """sub-trees without variables are evaluated by Python itself before the DSL sees them"""
        if x[0] in ("c", "v", "r"):
            return x
        subs = [C01.fold(t) for t in x[1:]]
        if all(t[0] == "c" for t in subs):
            try:
                if x[0] == "neg":
                    return ["c", -subs[0][1]]
                if x[0] == "abs":
                    return ["c", abs(subs[0][1])]
                if x[0] == "<<" and not -4096 < subs[1][1] < 4096:
                    raise OverflowError("shift count out of any reasonable range")
                return ["c", dsl.OPS[x[0]](subs[0][1], subs[1][1])]
            except (ZeroDivisionError, ValueError, OverflowError, MemoryError):
                return [x[0]] + subs
        # Register (64 bit) +/- int is a Sum; adding further ints folds into its constant
        def longreg(t):
            return t[0] == "r" and t[1] in ("r", "sr")

        def is_sum(t):
            return t[0] == "+" and longreg(t[1]) and t[2][0] == "c"
        if x[0] in ("+", "-") and subs[1][0] == "c" and isinstance(subs[1][1], int):
            k = subs[1][1] if x[0] == "+" else -subs[1][1]
            if longreg(subs[0]):
                return ["+", subs[0], ["c", k]]
            if is_sum(subs[0]):
                return ["+", subs[0][1], ["c", subs[0][2][1] + k]]
        if x[0] == "+" and subs[0][0] == "c" and isinstance(subs[0][1], int):
            if longreg(subs[1]):
                return ["+", subs[1], ["c", subs[0][1]]]
            if is_sum(subs[1]):
                return ["+", subs[1][1], ["c", subs[1][2][1] + subs[0][1]]]
        return [x[0]] + subs

    def cexpr(self, case, x):
        from .common import cz, cbool, cnat
        x = self.fold(x)
        if x[0] == "c":
            return f"(EConst {cz(x[1])})"
        if x[0] == "v":
            fmt = [f for n, _, f in case["decls"] if n == x[1]][0]
            raw = case["values"][x[1]] % (1 << 8 * dsl.fmt_size(fmt))
            return f"(EVar {cz(raw)} {cnat(dsl.fmt_size(fmt))} {cbool(dsl.fmt_signed(fmt))})"
        if x[0] == "r":
            return f"(EReg {cz(case['reginit'][x[2]] % (1 << 64))} {cbool(x[1] in ('r', 'sr'))} {cbool(x[1] in ('sr', 'sw'))})"
        if x[0] == "neg":
            return f"(ENeg {self.cexpr(case, x[1])})"
        if x[0] == "abs":
            return f"(EAbs {self.cexpr(case, x[1])})"
        a, b = x[1], x[2]
        if a[0] == "c" and x[0] in ("+", "*", "&", "|", "^"):
            a, b = b, a                       # Python's reflected operators swap the operands
        return f"(EBin {self.OPN[x[0]]} {self.cexpr(case, a)} {self.cexpr(case, b)})"

    def model_term(self, case):
        """the width/sign propagation model (Gen/Denote.v) must predict what the real code stored"""
        from .common import cnat
        if case["_built"].error is not None or case["_run"] is None or k_wreg_upper(case, None):
            return None
        if case["_run"][0] != [1]:
            return None
        dfmt = dest_fmt(case)
        return f"(run {self.cexpr(case, case['expr'])} {cnat(dsl.fmt_size(dfmt))})"

    def model_value(self, case, o):
        dfmt = dest_fmt(case)
        return o["dest"] % (1 << 8 * dsl.fmt_size(dfmt))

    def run_impl(self, case):
        b = case["_built"]
        if b.error is not None:
            return Err(6, b.error)
        r = case["_run"]
        if r is None:
            return Err(9, "model evaluation failed")
        status, pkt, maps, stack, regs = r
        if status != [1]:
            return Err(7, f"program did not exit normally: status {status}")
        amap = maps[0] if maps else []
        if case.get("regdest") and case["regdest"][1] != 0:
            f = dest_fmt(case)
            return {"dest": dsl.from_bytes(f, dsl.to_bytes(f, regs[case["regdest"][1]])),
                    "others": {n: read_var(n, b, stack, amap) for n in b.layout}}
        return {"dest": read_var(case["dest"], b, stack, amap),
                "others": {n: read_var(n, b, stack, amap) for n in b.layout if n != case["dest"]}}

    def expected(self, case):
        env = exprs.Env({n: (s, f, case["values"][n]) for n, s, f in case["decls"]}, case["reginit"])
        dfmt = dest_fmt(case)
        # constant sub-trees are plain Python numbers before the DSL sees them (neg(-1) is the constant 1, typed by its value)
        expr = self.fold(case["expr"])
        W = exprs.width_of_statement(dsl.fmt_size(dfmt), expr, env)
        vals, ok, why = exprs.meaning(expr, env, W)
        ring_only = exprs.ops_of(case["expr"]) <= exprs.RING
        shifts_ok = "shift amount" not in why
        checkable = (ok or (ring_only and shifts_ok))
        red = sorted({dsl.from_bytes(dfmt, dsl.to_bytes(dfmt, v)) for v in vals})
        return red, checkable, why, W

    def holds(self, case, o):
        if isinstance(o, Err):
            if o.code == 6:
                return True if "no value" in o.what or "not enough registers" in o.what or "ZeroDivisionError" in o.what or "OverflowError" in o.what or "MemoryError" in o.what else f"generator refused a well-typed statement: {o.what}"
            return o.what
        red, checkable, why, W = self.expected(case)
        if not checkable:
            return True
        if o["dest"] not in red:
            return (f"{self.show(case)} stored {o['dest']}, exact result reduced to the destination is {red} "
                    f"(width class {W})")
        return True

    def show(self, case):
        def s(x):
            if x[0] == "c":
                return str(x[1])
            if x[0] == "v":
                f = [f for n, _, f in case["decls"] if n == x[1]][0]
                return f"{x[1]}:{f}={case['values'][x[1]]}"
            if x[0] == "r":
                return f"{x[1]}{x[2]}={case['reginit'][x[2]]}"
            if x[0] in ("neg", "abs"):
                return f"{x[0]}({s(x[1])})"
            return f"({s(x[1])} {x[0]} {s(x[2])})"
        dfmt = dest_fmt(case)
        if case.get("regdest"):
            return f"{case['regdest'][0]}{case['regdest'][1]} = {s(case['expr'])}"
        return f"d:{dfmt} = {s(case['expr'])}"

    def describe(self, case):
        return {k: v for k, v in case.items() if not k.startswith("_")}

    def case_from_json(self, w):
        w["decls"] = [tuple(d) for d in w["decls"]]
        w["regs"] = [tuple(r) for r in w["regs"]]
        w["reginit"] = {int(k): v for k, v in w["reginit"].items()}
        return w


CHECK = C01
