(* C14 State changes walk the EtherCAT state machine in order.
   Model: Ecat/StateMachine.v (Terminal.to_operational / get_state); the
   terminal is an arbitrary stream of AL status words; MachineState values
   and their enumeration order are regenerated from the source. *)
From Verif Require Import Ecat.StateMachine Ecat.StateMachine_proofs.

(* For every target in {PRE-OP, SAFE-OP, OP}, every first status word with a
   valid state other than BOOTSTRAP, and EVERY further stream of status words
   (any number of polls, errors anywhere):
   - an initial error is acknowledged first (write 0x11) and INIT taken as start;
   - the states requested afterwards are a prefix of the states strictly above
     the start up to the target, in order (one step at a time, never above
     the target);
   - a state is requested only after the previous request was reported
     without error (ordered);
   - it returns only when all of them were requested and the last reported
     state is the target (or the start state already was at/above target),
     with no error reported on the way;
   - it raises only on a reported error, and never falls off the loop. *)
Theorem C14_order : forall target r0 rs,
  is_target target -> valid_state (Z.land r0 15) = true -> Z.land r0 15 <> MachineState_BOOTSTRAP ->
  let err := negb (Z.land r0 16 =? 0) in
  let st := if err then MachineState_INIT else Z.land r0 15 in
  exists t', fst (to_operational target (r0 :: rs)) = R r0 :: (if err then [W ack_word] else []) ++ t' /\
             GoSpec st target t' (snd (to_operational target (r0 :: rs))).
Proof. exact to_operational_spec. Qed.
Print Assumptions C14_order.

(* GoSpec, spelled out (so the statement above can be read here) *)
Theorem C14_GoSpec_unfold : forall state target t o, GoSpec state target t o <->
  ((exists k, writes t = firstn k (path state target)) /\
   ordered None t = true /\
   (o = Returned -> writes t = path state target /\
                    last_report t state = (if state <? target then target else state) /\
                    has_error_read t = false) /\
   (o = Raised -> has_error_read t = true) /\
   (o = Waiting -> has_error_read t = false) /\
   o <> FellOff).
Proof. intros. reflexivity. Qed.

(* an error reported while polling ends the call with an exception *)
Theorem C14_error_raises : forall c rs t o rest, poll c rs = (t, o, rest) ->
  match o with
  | None => has_error_read t = false
  | Some Raised => has_error_read t = true
  | Some BadReply => True
  | Some _ => has_error_read t = false
  end.
Proof. intros c rs t o rest H. destruct (poll_spec _ _ _ _ _ H) as [_ S]. destruct o as [[]|]; tauto. Qed.
Print Assumptions C14_error_raises.

Example C14_nonvacuous :
  to_operational 8 [0x14; 1; 2; 2; 4; 1; 8] =
    ([R 0x14; W 17; W 2; R 1; R 2; W 4; R 2; R 4; W 8; R 1; R 8], Returned)
  /\ path 1 8 = [2; 4; 8] /\ MachineState_order = [1; 2; 4; 8; 3].
Proof. vm_compute. repeat split. Qed.
