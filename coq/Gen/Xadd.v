(* In-place addition on shared memory (ebpfcat/ebpf.py Memory.__iadd__ /
   __isub__ -> IAdd -> Memory._set emits one XADD).
   Abstract view of one program instance: a sequence of events, each one
   instruction; an instruction either leaves the shared cell alone (Priv) or
   is the atomic add (Add a).  An execution of several instances is ANY
   interleaving of their event sequences. *)
From Verif Require Export Ebpf.Isa.

Inductive ev := Priv | Add (a : Z) | Load (r : nat) | StoreSum (r : nat) (a : Z).
(* Load / StoreSum: the NON-atomic lowering (read the cell into a private
   register, later write register + a), used only to show what goes wrong
   without XADD. *)

Definition apply_ev (n : nat) (c : Z) (e : ev) : Z :=
  match e with Add a => (c + a) mod 256 ^ Z.of_nat n | _ => c end.

Fixpoint adds (l : list ev) : Z :=
  match l with [] => 0 | Add a :: tl => a + adds tl | _ :: tl => adds tl end.
Definition total (ls : list (list ev)) : Z := fold_right (fun l acc => adds l + acc) 0 ls.

Inductive interleave : list (list ev) -> list ev -> Prop :=
| il_done : forall ls, Forall (fun l => l = []) ls -> interleave ls []
| il_step : forall pre e rest post m,
    interleave (pre ++ rest :: post) m -> interleave (pre ++ (e :: rest) :: post) (e :: m).

Definition atomic_only (l : list ev) : Prop := Forall (fun e => match e with Priv | Add _ => True | _ => False end) l.

(* ---- the non-atomic lowering, with private registers per instance ---- *)
(* state: cell and the private register of each instance *)
Definition rmw_step (n : nat) (st : Z * list Z) (ie : nat * ev) : Z * list Z :=
  let '(c, regs) := st in
  let '(i, e) := ie in
  match e with
  | Load _ => (c, firstn i regs ++ c :: skipn (S i) regs)
  | StoreSum _ a => ((nth i regs 0 + a) mod 256 ^ Z.of_nat n, regs)
  | Add a => ((c + a) mod 256 ^ Z.of_nat n, regs)
  | Priv => st
  end.

(* ---- the ISA instruction ---- *)
(* result of Isa.step on an XADD instruction of size n at a map address *)
Definition xadd_cell (n : nat) (old amount : Z) : Z := (old + amount) mod 256 ^ Z.of_nat n.
