From Verif Require Import Lib.Base Lib.ListX Ebpf.Isa Corr.Exec Gen.Xadd.
(* several program instances on shared maps, one instruction at a time in the order of a schedule *)
Definition with_maps (s : mstate) (m : list (list Z)) : mstate :=
  {| regs := regs s; stack := stack s; pkt := pkt s; maps := m; oracle := oracle s; trace := trace s |}.

Record inst := { i_prog : list instr; i_state : mstate; i_status : status; i_pc : nat }.

Definition step_inst (gm : list (list Z)) (x : inst) : list (list Z) * inst :=
  match i_status x with
  | Running =>
      let '(s', st', pc') := step (i_prog x) (i_pc x) (with_maps (i_state x) gm) in
      (maps s', {| i_prog := i_prog x; i_state := s'; i_status := st'; i_pc := pc' |})
  | _ => (gm, x)
  end.

Fixpoint run_sched (sched : list nat) (gm : list (list Z)) (xs : list inst) : list (list Z) * list inst :=
  match sched with
  | [] => (gm, xs)
  | k :: tl =>
      match nth_error xs k with
      | Some x => let '(gm', x') := step_inst gm x in run_sched tl gm' (set_at k x' xs)
      | None => run_sched tl gm xs
      end
  end.

(* finish every instance, one after the other *)
Fixpoint finish (fuel : nat) (gm : list (list Z)) (x : inst) : list (list Z) * inst :=
  match fuel with
  | O => (gm, x)
  | S f => match i_status x with
           | Running => let '(gm', x') := step_inst gm x in finish f gm' x'
           | _ => (gm, x)
           end
  end.
Fixpoint finish_all (gm : list (list Z)) (xs : list inst) : list (list Z) * list inst :=
  match xs with
  | [] => (gm, [])
  | x :: tl => let '(gm', x') := finish (4 * length (i_prog x) + 64) gm x in
               let '(gm'', tl') := finish_all gm' tl in (gm'', x' :: tl')
  end.

Definition multi (progs : list (list instr)) (ms : list (list Z)) (stk : list Z) (sched : list nat) : V :=
  let xs := map (fun p => {| i_prog := p; i_state := with_stack (init_state [] ms []) stk; i_status := Running; i_pc := 0%nat |}) progs in
  let '(gm, xs') := run_sched sched ms xs in
  let '(gm', xs'') := finish_all gm xs' in
  VL [VL (map VB gm'); VL (map (fun x => v_status (i_status x)) xs'')].

(* the model: the n-byte cell at offset off of map 0 ends up as init + sum of the amounts *)
Definition model (n : nat) (init : Z) (amounts : list Z) : V :=
  VZ (fold_left (apply_ev n) (map Add amounts) init).
Definition multis (progs : list (list instr)) (ms : list (list Z)) (stk : list Z) (scheds : list (list nat)) : V :=
  VL (map (multi progs ms stk) scheds).
Definition models (n : nat) (init : Z) (amounts : list Z) (k : nat) : V := VL (repeat (model n init amounts) k).

(* the same for XDP programs: every instance has a packet of its own (the shared memory is the map) *)
Definition multi_p (progs : list (list instr)) (pk : list Z) (ms : list (list Z)) (stk : list Z) (sched : list nat) : V :=
  let xs := map (fun p => {| i_prog := p; i_state := with_stack (init_state pk ms []) stk; i_status := Running; i_pc := 0%nat |}) progs in
  let '(gm, xs') := run_sched sched ms xs in
  let '(gm', xs'') := finish_all gm xs' in
  VL [VL (map VB gm'); VL (map (fun x => v_status (i_status x)) xs'')].
Definition multis_p (progs : list (list instr)) (pk : list Z) (ms : list (list Z)) (stk : list Z) (scheds : list (list nat)) : V :=
  VL (map (multi_p progs pk ms stk) scheds).
