From Verif Require Import Gen.Arith Gen.Denote.

Definition wbits (l : bool) : Z := if l then 64 else 32.
Lemma width_pow l : width l = 2 ^ wbits l.
Proof. destruct l; reflexivity. Qed.
Lemma width_pos l : 0 < width l.
Proof. destruct l; reflexivity. Qed.
Lemma width_le l : width l <= W64.
Proof. destruct l; unfold width, W64, W32; lia. Qed.
Lemma W64_width l : exists k, 0 < k /\ W64 = width l * k.
Proof. destruct l; [exists 1|exists W32]; unfold width, W64, W32; lia. Qed.

Lemma mod_W64_width x l : (x mod W64) mod width l = x mod width l.
Proof. destruct (W64_width l) as (k & Hk & E). rewrite E. apply mod_mod_mult; [apply width_pos|exact Hk]. Qed.

Lemma cong_W64 l a b : cong W64 a b -> cong (width l) a b.
Proof. destruct (W64_width l) as (k & Hk & E). rewrite E. apply cong_divide; [apply width_pos|exact Hk]. Qed.

(* signed reading of a w-bit value *)
Definition sxw (l : bool) (a : Z) : Z := if l then sx64 a else sx32 a.
Lemma sxw_mod l x : - (width l / 2) <= x < width l / 2 -> sxw l (x mod width l) = x.
Proof.
  destruct l; unfold sxw, sx64, sx32, width, W64, W32; intros H.
  - destruct (Z.ltb_spec (x mod 18446744073709551616) (18446744073709551616 / 2)); lia.
  - rewrite Z.mod_mod by lia. destruct (Z.ltb_spec (x mod 4294967296) (4294967296 / 2)); lia.
Qed.

(* ---------------- one ALU operation on congruent operands ---------------- *)
Definition ring_result (op : binop) (x y : Z) : Z :=
  match op with
  | OAdd => x + y | OSub => x - y | OMul => x * y | ODiv => x / y | OMod => x mod y
  | OAnd => Z.land x y | OOr => Z.lor x y | OXor => Z.lxor x y | OLsh => x * 2 ^ y | ORsh => x / 2 ^ y
  end.

Definition op_pre (op : binop) (sg : bool) (l : bool) (x y : Z) : Prop :=
  match op with
  | ODiv | OMod => 0 <= x < width l /\ 0 < y < width l
  | ORsh => (if sg then - (width l / 2) <= x < width l / 2 else 0 <= x < width l) /\ 0 <= y < wbits l
  | OLsh => 0 <= y < wbits l
  | _ => True
  end.

Lemma alu_at_ok op sg l va vb x y :
  cong (width l) va x -> cong (width l) vb y -> op_pre op sg l x y ->
  0 <= alu_at (alu_code op sg) l va vb < W64 /\ cong (width l) (alu_at (alu_code op sg) l va vb) (ring_result op x y).
Proof.
  intros Ha Hb Hp. unfold alu_at. pose proof (width_pos l) as Wp. pose proof (width_le l) as Wl.
  set (a := va mod width l). set (b := vb mod width l).
  assert (Ra : 0 <= a < width l) by (apply Z.mod_pos_bound; exact Wp).
  assert (Rb : 0 <= b < width l) by (apply Z.mod_pos_bound; exact Wp).
  assert (Ca : cong (width l) a x) by (eapply cong_trans; [apply cong_mod; exact Wp|exact Ha]).
  assert (Cb : cong (width l) b y) by (eapply cong_trans; [apply cong_mod; exact Wp|exact Hb]).
  assert (M : forall z, 0 <= z mod width l < W64) by (intros z; pose proof (Z.mod_pos_bound z (width l) Wp); lia).
  assert (Wbits : wbits l < width l) by (destruct l; unfold wbits, width, W64, W32; lia).
  destruct op; cbn [alu_code ring_result op_pre] in *; unfold alu; cbn [Z.eqb Pos.eqb];
    change (if l then W64 else W32) with (width l); change (if l then 64 else 32) with (wbits l).
  - split; [apply M|]. eapply cong_trans; [apply cong_mod; exact Wp|]. apply cong_add; assumption.
  - split; [apply M|]. eapply cong_trans; [apply cong_mod; exact Wp|]. apply cong_sub; assumption.
  - split; [apply M|]. eapply cong_trans; [apply cong_mod; exact Wp|]. apply cong_mul; assumption.
  - (* DIV *) destruct Hp as [Hx Hy].
    assert (a = x) by (unfold cong in Ca; rewrite (Z.mod_small a), (Z.mod_small x) in Ca; lia).
    assert (b = y) by (unfold cong in Cb; rewrite (Z.mod_small b), (Z.mod_small y) in Cb; lia).
    subst a b. rewrite H, H0. destruct (Z.eqb_spec y 0); [lia|].
    assert (0 <= x / y <= x) by (split; [apply Z.div_pos; lia|apply Z.div_le_upper_bound; nia]).
    split; [lia|reflexivity].
  - (* MOD *) destruct Hp as [Hx Hy].
    assert (a = x) by (unfold cong in Ca; rewrite (Z.mod_small a), (Z.mod_small x) in Ca; lia).
    assert (b = y) by (unfold cong in Cb; rewrite (Z.mod_small b), (Z.mod_small y) in Cb; lia).
    subst a b. rewrite H, H0. destruct (Z.eqb_spec y 0); [lia|].
    pose proof (Z.mod_pos_bound x y ltac:(lia)). split; [lia|reflexivity].
  - (* AND *) rewrite width_pow in *. assert (0 <= wbits l) by (destruct l; cbn; lia).
    pose proof (land_range a b (wbits l) H Ra Rb). split; [unfold W64 in *; lia|]. apply cong_land; assumption.
  - (* OR *) rewrite width_pow in *. assert (0 <= wbits l) by (destruct l; cbn; lia).
    pose proof (lor_range a b (wbits l) H Ra Rb). split; [unfold W64 in *; lia|]. apply cong_lor; assumption.
  - (* XOR *) rewrite width_pow in *. assert (0 <= wbits l) by (destruct l; cbn; lia).
    pose proof (lxor_range a b (wbits l) H Ra Rb). split; [unfold W64 in *; lia|]. apply cong_lxor; assumption.
  - (* LSH *)
    assert (b = y) by (unfold cong in Cb; rewrite (Z.mod_small b), (Z.mod_small y) in Cb; lia).
    rewrite H. rewrite (Z.mod_small y) by lia. rewrite Z.shiftl_mul_pow2 by lia.
    split; [apply M|]. eapply cong_trans; [apply cong_mod; exact Wp|]. apply cong_mul; [exact Wp|exact Ca|reflexivity].
  - (* RSH / ARSH *) destruct Hp as [Hx Hy].
    assert (b = y) by (unfold cong in Cb; rewrite (Z.mod_small b), (Z.mod_small y) in Cb; lia).
    assert (P : 0 < 2 ^ y) by (apply Z.pow_pos_nonneg; lia).
    destruct sg; cbn [Z.eqb Pos.eqb].
    + (* arithmetic *)
      fold (sxw l a). assert (Ea : a = x mod width l) by (subst a; exact Ha).
      rewrite Ea, (sxw_mod l x Hx), H, (Z.mod_small y) by lia. rewrite Z.shiftr_div_pow2 by lia.
      split; [apply M|]. apply cong_mod; exact Wp.
    + assert (a = x) by (unfold cong in Ca; rewrite (Z.mod_small a), (Z.mod_small x) in Ca; lia).
      rewrite H0, H, (Z.mod_small y) by lia. rewrite Z.shiftr_div_pow2 by lia.
      assert (0 <= x / 2 ^ y <= x) by (split; [apply Z.div_pos; lia|apply Z.div_le_upper_bound; nia]).
      split; [lia|reflexivity].
Qed.

Lemma neg_at_ok l va x : cong (width l) va x ->
  0 <= alu_at 8 l va 0 < W64 /\ cong (width l) (alu_at 8 l va 0) (- x).
Proof.
  intros Ha. unfold alu_at, alu. cbn [Z.eqb Pos.eqb]. change (if l then W64 else W32) with (width l).
  pose proof (width_pos l) as Wp. pose proof (width_le l) as Wl.
  pose proof (Z.mod_pos_bound (- (va mod width l)) (width l) Wp). split; [lia|].
  eapply cong_trans; [apply cong_mod; exact Wp|]. apply cong_opp; [exact Wp|].
  eapply cong_trans; [apply cong_mod; exact Wp|exact Ha].
Qed.

(* ---------------- well-formedness and range precondition ---------------- *)
Fixpoint ok (e : expr) (req : option bool) : Prop :=
  match e with
  | EConst v => - 9223372036854775808 <= v < W64
  | EReg c l sg => 0 <= c < W64 /\ (l = false -> c < (if sg then 2147483648 else W32))
  | EVar raw size sg => In size [1; 2; 4; 8]%nat /\ 0 <= raw < 256 ^ Z.of_nat size
  | EBin op a b =>
      ok a req /\
      let l := eff req (snd (impl a req)) in
      ok b (Some l) /\ op_pre op (esigned a) l (exact a) (exact b)
  | ENeg a => ok a req
  | EAbs a =>
      ok a req /\
      let l := eff req (snd (impl a req)) in
      (l = true \/ esigned a = true) /\ - (width l / 2) <= exact a < width l / 2
  end.

Definition Inv (e : expr) (req : option bool) : Prop :=
  let l := eff req (snd (impl e req)) in
  0 <= fst (impl e req) < W64 /\ cong (width l) (fst (impl e req)) (exact e).

Lemma var_ext_ok raw size sg l : In size [1; 2; 4; 8]%nat -> 0 <= raw < 256 ^ Z.of_nat size ->
  sg && (Nat.leb size 2 || (l && Nat.eqb size 4)) = true ->
  let sh := (if l then 64 else 32) - 8 * Z.of_nat size in
  0 <= alu_at 12 l (alu_at 6 l raw sh) sh < W64 /\
  cong (width l) (alu_at 12 l (alu_at 6 l raw sh) sh) (sx size raw).
Proof.
  intros Hs Hr He sh. subst sh.
  assert (Hc : (size = 1 \/ size = 2 \/ (size = 4 /\ l = true))%nat).
  { destruct Hs as [<-|[<-|[<-|[<-|[]]]]]; destruct sg, l; cbn in He; try discriminate; auto. }
  unfold alu_at, alu, sx, cong. cbn [Z.eqb Pos.eqb].
  destruct Hc as [->|[->|[-> ->]]]; [destruct l| destruct l|];
    unfold width, W64, W32, sx64, sx32 in *.
  all: repeat match goal with |- context [Z.of_nat ?n] => let v := eval vm_compute in (Z.of_nat n) in change (Z.of_nat n) with v in * end.
  all: repeat match goal with
       | |- context [Z.shiftl ?a ?k] => let k' := eval vm_compute in k in
                                        let p := eval vm_compute in (2 ^ k') in
                                        replace (Z.shiftl a k) with (a * p) by (change k with k'; rewrite Z.shiftl_mul_pow2 by lia; reflexivity)
       | |- context [Z.shiftr ?a ?k] => let k' := eval vm_compute in k in
                                        let p := eval vm_compute in (2 ^ k') in
                                        replace (Z.shiftr a k) with (a / p) by (change k with k'; rewrite Z.shiftr_div_pow2 by lia; reflexivity)
       end.
  all: repeat match goal with |- context [2 ^ ?k] => let p := eval vm_compute in (2 ^ k) in change (2 ^ k) with p end.
  all: repeat match goal with H : context [256 ^ ?k] |- _ => let p := eval vm_compute in (256 ^ k) in change (256 ^ k) with p in H end.
  all: repeat match goal with |- context [?a / 2] => let p := eval vm_compute in (a / 2) in change (a / 2) with p end.
  all: rewrite (Z.mod_small raw) by lia.
  all: unfold W64, W32 in *.
  all: repeat match goal with |- context [if ?a <? ?b then _ else _] => destruct (Z.ltb_spec a b) end; try lia.
Qed.

Lemma sx_range size raw : In size [1; 2; 4; 8]%nat -> 0 <= raw < 256 ^ Z.of_nat size ->
  cong W64 raw (sx size raw) \/ True.
Proof. auto. Qed.

Lemma small_constant_spec b imm : small_constant b = Some imm -> b = EConst imm /\ -2147483648 <= imm < 2147483648.
Proof.
  destruct b; cbn; try discriminate. destruct (Z.leb_spec (-2147483648) v) as [L1|L1], (Z.ltb_spec v 2147483648) as [L2|L2]; cbn; try discriminate.
  intros Hq; inversion Hq; subst. split; [reflexivity|lia].
Qed.

Theorem impl_inv : forall e req, ok e req -> Inv e req.
Proof.
  induction e as [v|c l sg|raw size sg|op a IHa b IHb|a IHa|a IHa]; intros req Hok; unfold Inv.
  - (* constant *)
    cbn [impl fst snd exact ok] in *. pose proof (Z.mod_pos_bound v W64 ltac:(reflexivity)).
    split; [lia|]. apply cong_W64. apply cong_mod. reflexivity.
  - (* register *)
    cbn [impl fst snd exact ok] in *. destruct Hok as [Hc Hl].
    rewrite (Z.mod_small c) by lia. split; [lia|].
    unfold reg_value. destruct l.
    + apply cong_W64. destruct sg; [|rewrite Z.mod_small by lia; reflexivity].
      rewrite (Z.mod_small c) by lia. unfold sx64, cong, W64 in *.
      destruct (Z.ltb_spec c (18446744073709551616 / 2)); [reflexivity|].
      replace (c - 18446744073709551616) with (c + (-1) * 18446744073709551616) by lia.
      rewrite Z.mod_add by lia. reflexivity.
    + specialize (Hl eq_refl).
      assert (E : (if sg then sx32 c else c mod W32) = c).
      { destruct sg; unfold sx32, W32 in *; rewrite Z.mod_small by lia; [|reflexivity].
        destruct (Z.ltb_spec c (4294967296 / 2)); lia. }
      rewrite E. reflexivity.
  - (* variable *)
    cbn [impl fst snd exact ok] in *. destruct Hok as [Hs Hr].
    set (l := match req with Some true => true | _ => false end).
    assert (El : forall fl, Nat.eqb size 8 = fl -> eff req fl = l \/ (req = None /\ eff req fl = fl)).
    { intros fl _. subst l. destruct req as [[|]|]; cbn; auto. }
    assert (R64 : 0 <= raw < W64).
    { destruct Hs as [<-|[<-|[<-|[<-|[]]]]]; unfold W64; cbn in Hr; lia. }
    destruct (sg && (Nat.leb size 2 || (l && Nat.eqb size 4))) eqn:Ext.
    + (* sign-extended by shifts *)
      destruct (var_ext_ok raw size sg l Hs Hr Ext) as [Rg Cg]. cbn zeta in Rg, Cg.
      split; [exact Rg|]. unfold leaf_value.
      assert (sg = true) by (destruct sg; [reflexivity|discriminate]). subst sg.
      (* the effective width is l, except for an 8-byte... not possible here: size <= 4 *)
      assert (S8 : Nat.eqb size 8 = false).
      { destruct Hs as [<-|[<-|[<-|[<-|[]]]]]; try reflexivity. cbn in Ext. destruct l; discriminate. }
      rewrite S8. replace (eff req false) with l; [exact Cg|].
      subst l. destruct req as [[|]|]; reflexivity.
    + (* loaded as is *)
      split; [lia|]. unfold leaf_value, sx.
      destruct sg; [|reflexivity].
      (* signed, not extended: either 8 bytes, or 4 bytes at 32 bits *)
      assert (Hc : (size = 8 \/ (size = 4 /\ l = false))%nat).
      { destruct Hs as [<-|[<-|[<-|[<-|[]]]]]; cbn in Ext; try discriminate; auto. destruct l; [discriminate|auto]. }
      destruct Hc as [->|[-> Hl]].
      * cbn [Nat.eqb]. apply cong_W64. unfold cong, W64. change (2 ^ (8 * Z.of_nat 8 - 1)) with 9223372036854775808.
        change (2 ^ (8 * Z.of_nat 8)) with 18446744073709551616.
        destruct (Z.ltb_spec raw 9223372036854775808); [reflexivity|].
        replace (raw - 18446744073709551616) with (raw + (-1) * 18446744073709551616) by lia.
        rewrite Z.mod_add by lia. reflexivity.
      * cbn [Nat.eqb]. replace (eff req false) with false by (subst l; destruct req as [[|]|]; try reflexivity; discriminate).
        unfold cong, width, W32. change (2 ^ (8 * Z.of_nat 4 - 1)) with 2147483648.
        change (2 ^ (8 * Z.of_nat 4)) with 4294967296.
        destruct (Z.ltb_spec raw 2147483648); [reflexivity|].
        replace (raw - 4294967296) with (raw + (-1) * 4294967296) by lia.
        rewrite Z.mod_add by lia. reflexivity.
  - (* binary *)
    cbn [ok] in Hok. destruct Hok as (Ha & Hb & Hp).
    specialize (IHa req Ha). unfold Inv in IHa.
    cbn [impl exact]. destruct (impl a req) as [va la] eqn:Ea. cbn [fst snd] in *.
    set (l := eff req la) in *.
    destruct IHa as [Ra Ca].
    assert (El : forall fl, eff req fl = fl \/ True) by auto.
    destruct (small_constant b) as [imm|] eqn:Sb.
    + destruct (small_constant_spec _ _ Sb) as [-> Ri]. cbn [fst snd].
      assert (Ef : eff req l = l) by (subst l; destruct req; reflexivity). rewrite Ef.
      assert (Cb : cong (width l) (imm mod W64) (exact (EConst imm))).
      { cbn [exact]. apply cong_W64, cong_mod. reflexivity. }
      destruct (alu_at_ok op (esigned a) l va (imm mod W64) (exact a) (exact (EConst imm)) Ca Cb Hp) as [R C].
      split; [exact R|]. cbn [exact] in C. destruct op; exact C.
    + specialize (IHb (Some l) Hb). unfold Inv in IHb. destruct (impl b (Some l)) as [vb lb] eqn:Eb.
      cbn [fst snd eff] in *. destruct IHb as [Rb Cb].
      assert (Ef : eff req l = l) by (subst l; destruct req; reflexivity). rewrite Ef.
      destruct (alu_at_ok op (esigned a) l va vb (exact a) (exact b) Ca Cb Hp) as [R C].
      split; [exact R|]. destruct op; exact C.
  - (* negation *)
    cbn [ok] in Hok. specialize (IHa req Hok). unfold Inv in IHa.
    cbn [impl exact]. destruct (impl a req) as [va la] eqn:Ea. cbn [fst snd] in *.
    set (l := eff req la) in *. destruct IHa as [Ra Ca].
    assert (Ef : eff req l = l) by (subst l; destruct req; reflexivity). rewrite Ef.
    apply neg_at_ok. exact Ca.
  - (* abs *)
    cbn [ok] in Hok. destruct Hok as (Ha & Hl & Hr). specialize (IHa req Ha). unfold Inv in IHa.
    cbn [impl exact]. destruct (impl a req) as [va la] eqn:Ea. cbn [fst snd] in *.
    set (l := eff req la) in *. destruct IHa as [Ra Ca].
    assert (Ef : eff req l = l) by (subst l; destruct req; reflexivity).
    pose proof (width_pos l) as Wp.
    assert (Sx : sxw l (va mod width l) = exact a) by (rewrite Ca; apply sxw_mod; exact Hr).
    destruct l eqn:Hll.
    + (* 64-bit test *)
      cbn [orb]. cbn [fst snd]. rewrite Ef. unfold sxw, width in Sx. rewrite Sx.
      destruct (Z.ltb_spec (exact a) 0).
      * destruct (neg_at_ok true va (exact a) Ca) as [R C]. split; [exact R|].
        rewrite Z.abs_neq by lia. exact C.
      * split; [exact Ra|]. rewrite Z.abs_eq by lia. exact Ca.
    + destruct Hl as [Hl|Hl]; [discriminate|]. rewrite Hl. cbn [negb orb fst snd]. rewrite Ef.
      assert (Sx' : sx32 va = exact a).
      { unfold sxw, width in Sx. unfold sx32 in *. rewrite Z.mod_mod in Sx by (unfold W32; lia). exact Sx. }
      rewrite Sx'. destruct (Z.ltb_spec (exact a) 0).
      * destruct (neg_at_ok false va (exact a) Ca) as [R C]. split; [exact R|].
        rewrite Z.abs_neq by lia. exact C.
      * split; [exact Ra|]. rewrite Z.abs_eq by lia. exact Ca.
Qed.

(* The property for one assignment: the n-byte destination receives the exact
   value reduced to its size. *)
Theorem stored_exact e n : In n [1; 2; 4; 8]%nat -> ok e (Some (Nat.eqb n 8)) ->
  stored e n = exact e mod 256 ^ Z.of_nat n.
Proof.
  intros Hn Hok. pose proof (impl_inv e _ Hok) as [R C]. unfold stored.
  cbn [eff] in C. set (v := fst (impl e (Some (Nat.eqb n 8)))) in *.
  destruct Hn as [<-|[<-|[<-|[<-|[]]]]]; cbn [Nat.eqb] in C; unfold cong, width, W64, W32 in C.
  - change (256 ^ Z.of_nat 1) with 256.
    rewrite <- (mod_mod_mult v 256 16777216), <- (mod_mod_mult (exact e) 256 16777216) by lia.
    change (256 * 16777216) with 4294967296. now rewrite C.
  - change (256 ^ Z.of_nat 2) with 65536.
    rewrite <- (mod_mod_mult v 65536 65536), <- (mod_mod_mult (exact e) 65536 65536) by lia.
    change (65536 * 65536) with 4294967296. now rewrite C.
  - change (256 ^ Z.of_nat 4) with 4294967296. exact C.
  - change (256 ^ Z.of_nat 8) with 18446744073709551616. exact C.
Qed.
