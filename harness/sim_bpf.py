"""A stand-in for the bpf() system call itself (ebpfcat.bpf.bpf), one level below
sim_kernel: the library's own wrappers (create_map, lookup_elem, update_elem,
delete_elem, get_next_key, prog_load) run unchanged.  Every buffer whose address
the library takes is registered with its length; the fake kernel checks the
length against what the real kernel would read or write BEFORE touching memory
(an overrun is recorded and answered with EFAULT, never performed)."""
import contextlib
import ctypes
import os
import struct

HASH, ARRAY, PROG_ARRAY, PERCPU_HASH, PERCPU_ARRAY, LRU_HASH, LRU_PERCPU_HASH = 1, 2, 3, 5, 6, 9, 10      # the kernel's numbering (uapi/linux/bpf.h)


def possible_cpus():
    try:
        with open("/sys/devices/system/cpu/possible") as f:
            n = 0
            for part in f.read().strip().split(","):
                a, _, b = part.partition("-")
                n += int(b or a) - int(a) + 1
            return n
    except OSError:
        return os.cpu_count()


class BpfSim:
    def __init__(self, ncpu=None):
        self.ncpu = ncpu or possible_cpus()
        self.maps = {}          # fd -> dict(type, key, value, max, data {key bytes: value bytes or [per cpu]})
        self.progs = {}
        self.buffers = {}       # address -> length of the registered Python buffer
        self.keep = []
        self.overruns = []      # (op, what, needed, have)
        self.calls = []         # (op, fd, key_len_have, value_len_have, needed_key, needed_value)

    # ---- buffer registry
    def register(self, addr, length):
        self.buffers[addr] = length

    def have(self, addr):
        return self.buffers.get(addr, 0)

    def check(self, op, what, addr, needed):
        have = self.have(addr)
        if have < needed:
            self.overruns.append((op, what, needed, have))
            raise OSError(14, "Bad address (buffer too small: the kernel would overrun it)")
        return have

    def value_size(self, m):
        if m["type"] in (PERCPU_ARRAY, PERCPU_HASH, LRU_PERCPU_HASH):
            return (m["value"] + 7) // 8 * 8 * self.ncpu
        return m["value"]

    # ---- the system call
    def bpf(self, cmd, fmt, *args):
        if cmd == 0:
            mtype, ksz, vsz, mx, flags = args[:5]
            if mtype in (ARRAY,):
                fd = os.memfd_create("verif_map")
                os.ftruncate(fd, max(vsz * mx, 1))
            else:
                fd = os.open("/dev/null", os.O_RDONLY)
            self.maps[fd] = {"type": mtype, "key": ksz, "value": vsz, "max": mx, "data": {}}
            if mtype in (ARRAY, PERCPU_ARRAY):
                for i in range(mx):
                    self.maps[fd]["data"][struct.pack("<I", i)] = bytes(self.value_size(self.maps[fd]))
            return fd, args
        if cmd == 5:
            fd = os.open("/dev/null", os.O_RDONLY)
            n = args[1]
            self.progs[fd] = ctypes.string_at(args[2], n * 8)
            return fd, args
        if cmd in (1, 21, 2, 3, 4):
            fd = args[0]
            m = self.maps.get(fd)
            if m is None:
                raise OSError(9, "Bad file descriptor")
            op = {1: "lookup", 21: "lookup_and_delete", 2: "update", 3: "delete", 4: "get_next_key"}[cmd]
            kptr = args[1]
            if cmd == 4:
                nptr = args[2]
                have_n = self.check(op, "next_key", nptr, m["key"])
                keys = sorted(m["data"])
                if kptr == 0:
                    nxt = keys[0] if keys else None
                    self.calls.append((op, fd, 0, have_n, 0, m["key"]))
                else:
                    have_k = self.check(op, "key", kptr, m["key"])
                    self.calls.append((op, fd, have_k, have_n, m["key"], m["key"]))
                    cur = ctypes.string_at(kptr, m["key"])
                    later = [k for k in keys if k > cur]
                    nxt = later[0] if (cur in m["data"] and later) else (None if cur in m["data"] else (keys[0] if keys else None))
                if nxt is None:
                    raise OSError(2, "No such file or directory")
                ctypes.memmove(nptr, nxt, m["key"])
                return 0, args
            have_k = self.check(op, "key", kptr, m["key"])
            key = ctypes.string_at(kptr, m["key"])
            if cmd == 3:
                self.calls.append((op, fd, have_k, 0, m["key"], 0))
                if key not in m["data"]:
                    raise OSError(2, "No such file or directory")
                del m["data"][key]
                return 0, args
            vptr = args[2]
            vs = self.value_size(m)
            have_v = self.check(op, "value", vptr, vs)
            self.calls.append((op, fd, have_k, have_v, m["key"], vs))
            if cmd == 2:
                flags = args[3]
                if flags == 1 and key in m["data"]:
                    raise OSError(17, "File exists")
                if flags == 2 and key not in m["data"]:
                    raise OSError(2, "No such file or directory")
                if key not in m["data"] and len(m["data"]) >= m["max"]:
                    if m["type"] in (LRU_HASH, LRU_PERCPU_HASH):
                        del m["data"][next(iter(m["data"]))]          # an LRU map makes room by evicting an old element
                    else:
                        raise OSError(7, "Argument list too long")
                m["data"][key] = ctypes.string_at(vptr, vs)
                return 0, args
            if key not in m["data"]:
                raise OSError(2, "No such file or directory")
            ctypes.memmove(vptr, m["data"][key], vs)
            if cmd == 21:
                del m["data"][key]
            return 0, args
        raise OSError(22, f"bpf command {cmd} not simulated")


@contextlib.contextmanager
def installed(sim=None):
    import ebpfcat.bpf as bpfmod
    sim = sim or BpfSim()
    real_c_char, real_addressof = ctypes.c_char, ctypes.addressof
    saved = {n: getattr(bpfmod, n) for n in ("bpf", "addrof", "c_char", "create_string_buffer")}

    class CChar:
        @staticmethod
        def from_buffer(buf):
            obj = real_c_char.from_buffer(buf)
            sim.register(real_addressof(obj), len(buf))
            return obj

    def addrof(ptr):
        if isinstance(ptr, bytearray):
            return real_addressof(CChar.from_buffer(ptr))
        addr = ctypes.cast(ptr, ctypes.c_void_p).value
        try:
            sim.register(addr, len(ptr))
        except TypeError:
            sim.register(addr, ctypes.sizeof(ptr))
        sim.keep.append(ptr)
        return addr

    def csb(*a):
        buf = ctypes.create_string_buffer(*a)
        return buf
    bpfmod.bpf, bpfmod.addrof, bpfmod.c_char = sim.bpf, addrof, CChar
    try:
        yield sim
    finally:
        for n, v in saved.items():
            setattr(bpfmod, n, v)
