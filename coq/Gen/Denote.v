(* What the code generated for an integer DSL expression computes, as a
   function of the operand values: the width ("long") and sign propagation of
   Expression.calculate and its overrides in ebpfcat/ebpf.py (Constant,
   Register, Memory, Binary, Negate, Absolute), without register allocation.
   `impl e req` = (value left in the result register, in [0,2^64); the "long"
   flag the node reports).  The ALU is the one of Ebpf/Isa.v. *)
From Verif Require Export Ebpf.Isa.

Inductive binop := OAdd | OSub | OMul | ODiv | OMod | OAnd | OOr | OXor | OLsh | ORsh.

Inductive expr :=
| EConst (v : Z)
| EReg (content : Z) (long signed : bool)         (* r / sr / w / sw register and its 64-bit content *)
| EVar (raw : Z) (size : nat) (signed : bool)     (* 1/2/4/8-byte variable, raw = its bytes as unsigned number *)
| EBin (op : binop) (a b : expr)
| ENeg (a : expr)
| EAbs (a : expr).

Fixpoint esigned (e : expr) : bool :=
  match e with
  | EConst v => v <? 0
  | EReg _ _ s => s
  | EVar _ _ s => s
  | EBin ORsh a _ => esigned a
  | EBin OAnd a b => esigned a && esigned b                   (* AndExpression: negative only if both are *)
  | EBin OAdd (EReg _ true s) (EConst v) => s || (v <? 0)     (* Register + int is a Sum: sign of the constant *)
  | EBin OSub (EReg _ true s) (EConst v) => s || (0 <? v)
  | EBin _ a b => esigned a || esigned b
  | ENeg _ => true
  | EAbs _ => false
  end.

Definition small_constant (e : expr) : option Z :=
  match e with
  | EConst v => if (-2147483648 <=? v) && (v <? 2147483648) then Some v else None
  | _ => None
  end.

Definition alu_code (op : binop) (sg : bool) : Z :=
  match op with
  | OAdd => 0 | OSub => 1 | OMul => 2 | ODiv => 3 | OOr => 4 | OAnd => 5 | OLsh => 6
  | ORsh => if sg then 12 else 7 | OMod => 9 | OXor => 10
  end.

Definition width (l : bool) : Z := if l then W64 else W32.

(* one ALU instruction of width l on 64-bit register contents (result zero-extended) *)
Definition alu_at (code : Z) (l : bool) (a b : Z) : Z := alu code l (a mod width l) (b mod width l).

Definition eff (req : option bool) (fl : bool) : bool := match req with Some l => l | None => fl end.

Fixpoint impl (e : expr) (req : option bool) : Z * bool :=
  match e with
  | EConst v => (v mod W64, negb ((-2147483648 <=? v) && (v <? 4294967296)))
  | EReg c l _ => (c mod W64, l)
  | EVar raw size sg =>
      let l := match req with Some true => true | _ => false end in
      let ext := sg && (Nat.leb size 2 || (l && Nat.eqb size 4)) in
      let v := if ext
               then (let sh := (if l then 64 else 32) - 8 * Z.of_nat size in
                     alu_at 12 l (alu_at 6 l raw sh) sh)       (* (reg << sh) >> sh, arithmetic *)
               else raw in
      (v, Nat.eqb size 8)
  | EBin op a b =>
      let '(va, la) := impl a req in
      let l := eff req la in
      let code := alu_code op (esigned a) in
      match small_constant b with
      | Some imm => (alu_at code l va (imm mod W64), l)
      | None => let '(vb, _) := impl b (Some l) in (alu_at code l va vb, l)
      end
  | ENeg a =>
      let '(va, la) := impl a req in
      let l := eff req la in
      (alu_at 8 l va 0, l)
  | EAbs a =>
      let '(va, la) := impl a req in
      let l := eff req la in
      if l || negb (esigned a)
      then ((if sx64 (va mod W64) <? 0 then alu_at 8 true va 0 else va), l)
      else ((if sx32 va <? 0 then alu_at 8 false va 0 else va), l)
  end.

(* Memory._set of an n-byte variable: the low n bytes of the value computed
   with long = (n = 8) *)
Definition stored (e : expr) (n : nat) : Z := fst (impl e (Some (Nat.eqb n 8))) mod 256 ^ Z.of_nat n.

(* ---- the exact integer meaning ---- *)
Definition leaf_value (raw : Z) (size : nat) (sg : bool) : Z := if sg then sx size raw else raw.
Definition reg_value (c : Z) (l sg : bool) : Z :=
  if l then (if sg then sx64 (c mod W64) else c mod W64) else (if sg then sx32 c else c mod W32).

Fixpoint exact (e : expr) : Z :=
  match e with
  | EConst v => v
  | EReg c l sg => reg_value c l sg
  | EVar raw size sg => leaf_value raw size sg
  | EBin op a b =>
      let x := exact a in let y := exact b in
      match op with
      | OAdd => x + y | OSub => x - y | OMul => x * y | ODiv => x / y | OMod => x mod y
      | OAnd => Z.land x y | OOr => Z.lor x y | OXor => Z.lxor x y
      | OLsh => x * 2 ^ y | ORsh => x / 2 ^ y
      end
  | ENeg a => - exact a
  | EAbs a => Z.abs (exact a)
  end.
