From Verif Require Import Lib.Struct_proofs Ecat.Codec.

Lemma rt_out_length args d out : rt_out args d = Some out ->
  length out = (calcsize (rt_fmt args) + raw_len d)%nat.
Proof.
  unfold rt_out. destruct (pack _ _) as [p|] eqn:E; [|discriminate].
  intros H; inversion H; subst. apply pack_length in E.
  rewrite !app_length, zeros_length, E. unfold rt_fmt, raw_len.
  assert (C : forall a b, calcsize (a ++ b) = (calcsize a + calcsize b)%nat).
  { induction a; intros; simpl; [reflexivity|]. rewrite IHa. lia. }
  rewrite C. lia.
Qed.

Lemma calcsize_app a b : calcsize (a ++ b) = (calcsize a + calcsize b)%nat.
Proof. induction a; simpl; [reflexivity|]. rewrite IHa. lia. Qed.

(* encoding: payload = struct encoding of the values, zeros for the trailing
   read-only format, then the raw data *)
Lemma encode_layout args d out : rt_out args d = Some out ->
  exists p, pack (fmts_of (removelast args)) (vals_of args) = Some p /\
            out = p ++ zeros (calcsize (trailing args)) ++ raw_bytes d /\
            length p = calcsize (fmts_of (removelast args)).
Proof.
  unfold rt_out. destruct (pack _ _) as [p|] eqn:E; [|discriminate].
  intros H; inversion H; subst. exists p. repeat split. now apply pack_length in E.
Qed.

(* decoding of an arbitrary response of the right length *)
Lemma decode_offsets args d out ret : rt_out args d = Some out -> length ret = length out ->
  let n := calcsize (rt_fmt args) in
  exists vs, unpack (rt_fmt args) (firstn n ret) = Some vs /\
    rt_ret args d ret =
      Some match d, args with
           | DNone, _ => RFields vs
           | _, [] => RRaw ret
           | _, _ => RFieldsRaw vs (skipn n ret)
           end.
Proof.
  intros Ho Hl n. pose proof (rt_out_length _ _ _ Ho) as L. rewrite <- Hl in L. fold n in L.
  destruct (unpack_total (rt_fmt args) (firstn n ret)) as [vs Hv].
  { rewrite firstn_length. fold n. lia. }
  exists vs. split; [exact Hv|].
  unfold rt_ret.
  destruct d as [|k|l].
  - unfold raw_len in L. simpl in L. rewrite firstn_all2 in Hv by lia. now rewrite Hv.
  - destruct args; [reflexivity|].
    replace (length ret - raw_len (DCount k))%nat with n by lia. now rewrite Hv.
  - destruct args; [reflexivity|].
    replace (length ret - raw_len (DBytes l))%nat with n by lia. now rewrite Hv.
Qed.

Lemma unpack_zeros f : sizes_pos f -> unpack f (zeros (calcsize f)) = Some (zero_vals f).
Proof.
  induction f as [|it tl IH]; intros Hp; [reflexivity|].
  assert (Z0 : forall a b, zeros (a + b) = zeros a ++ zeros b) by (intros; apply repeat_app).
  assert (LV : forall n, le_val (zeros n) = 0).
  { induction n as [|n IHn]; [reflexivity|]. unfold zeros in *. cbn [repeat le_val]. lia. }
  cbn [unpack calcsize]. rewrite zeros_length.
  destruct (Nat.ltb_spec (isize it + calcsize tl) (isize it)); [lia|].
  rewrite Z0, skipn_app, zeros_length, Nat.sub_diag, skipn_all2 by (rewrite zeros_length; lia).
  simpl skipn. simpl app at 1.
  rewrite firstn_app, zeros_length, Nat.sub_diag, firstn_all2 by (rewrite zeros_length; lia).
  simpl firstn. rewrite app_nil_r.
  destruct it as [n s| |n]; cbn [sizes_pos] in Hp.
  - destruct Hp as [Hn Hp]. rewrite (IH Hp). cbn [zero_vals isize]. do 3 f_equal.
    unfold decode_int. rewrite LV. destruct s; [|reflexivity].
    unfold sx. destruct (Z.ltb_spec 0 (2 ^ (8 * Z.of_nat n - 1))); [reflexivity|].
    assert (0 < 2 ^ (8 * Z.of_nat n - 1)) by (apply Z.pow_pos_nonneg; lia). lia.
  - now rewrite (IH Hp).
  - now rewrite (IH Hp).
Qed.

Lemma unpack_app f g a b va vb : unpack f a = Some va -> unpack g b = Some vb ->
  unpack (f ++ g) (a ++ b) = Some (va ++ vb).
Proof.
  revert a va. induction f as [|it tl IH]; intros a va Ha Hb.
  - destruct a; simpl in Ha; [|discriminate]. inversion Ha; subst. exact Hb.
  - cbn [unpack app] in *.
    destruct (Nat.ltb_spec (length a) (isize it)); [discriminate|].
    rewrite app_length. destruct (Nat.ltb_spec (length a + length b) (isize it)); [lia|].
    destruct (unpack tl (skipn (isize it) a)) as [vs|] eqn:E; [|discriminate].
    rewrite skipn_app. replace (isize it - length a)%nat with O by lia. simpl skipn.
    rewrite (IH _ _ E Hb).
    rewrite firstn_app. replace (isize it - length a)%nat with O by lia. simpl firstn. rewrite app_nil_r.
    destruct it; inversion Ha; subst; reflexivity.
Qed.

Lemma sizes_pos_app f g : sizes_pos (f ++ g) -> sizes_pos f /\ sizes_pos g.
Proof.
  induction f as [|it tl IH]; intros H; [simpl; auto|].
  destruct it as [n s| |n]; cbn [app sizes_pos] in *.
  - destruct H as [Hn H]. apply IH in H. tauto.
  - apply IH in H. tauto.
  - apply IH in H. tauto.
Qed.

(* round trip on a bus that returns the payload unchanged: the caller gets its
   own values back, zeros for the trailing format, and its raw data *)
Lemma echo_roundtrip args d out :
  sizes_pos (rt_fmt args) -> vals_ok (fmts_of (removelast args)) (vals_of args) ->
  rt_out args d = Some out ->
  rt_ret args d out =
    Some match d, args with
         | DNone, _ => RFields (vals_of args ++ zero_vals (trailing args))
         | _, [] => RRaw out
         | _, _ => RFieldsRaw (vals_of args ++ zero_vals (trailing args)) (raw_bytes d)
         end.
Proof.
  intros Hp Hok Ho.
  destruct (encode_layout _ _ _ Ho) as (p & Hpk & Hout & Lp).
  assert (Hp1 := sizes_pos_app _ _ Hp).
  destruct Hp1 as [Hpa Hpb].
  pose proof (unpack_pack _ Hpa _ _ Hok Hpk) as U1.
  pose proof (unpack_zeros _ Hpb) as U2.
  pose proof (unpack_app _ _ _ _ _ _ U1 U2) as U.
  fold (rt_fmt args) in U.
  assert (Lz : length (p ++ zeros (calcsize (trailing args))) = calcsize (rt_fmt args)).
  { unfold rt_fmt. rewrite app_length, zeros_length, calcsize_app. lia. }
  unfold rt_ret. subst out.
  destruct d as [|k|l].
  - simpl raw_bytes. rewrite app_nil_r, U. reflexivity.
  - destruct args as [|a0 args0]; [reflexivity|]. set (args := a0 :: args0) in *.
    unfold raw_len. rewrite app_assoc, app_length.
    replace (length (p ++ zeros (calcsize (trailing args))) + length (raw_bytes (DCount k)) - length (raw_bytes (DCount k)))%nat
      with (length (p ++ zeros (calcsize (trailing args))))%nat by lia.
    rewrite firstn_app, Nat.sub_diag, firstn_all. simpl firstn. rewrite app_nil_r, U.
    rewrite skipn_app, Nat.sub_diag, skipn_all. reflexivity.
  - destruct args as [|a0 args0]; [reflexivity|]. set (args := a0 :: args0) in *.
    unfold raw_len. rewrite app_assoc, app_length.
    replace (length (p ++ zeros (calcsize (trailing args))) + length (raw_bytes (DBytes l)) - length (raw_bytes (DBytes l)))%nat
      with (length (p ++ zeros (calcsize (trailing args))))%nat by lia.
    rewrite firstn_app, Nat.sub_diag, firstn_all. simpl firstn. rewrite app_nil_r, U.
    rewrite skipn_app, Nat.sub_diag, skipn_all. reflexivity.
Qed.
