(* Terminal._eeprom_read_one / read_eeprom, parse_sync_managers, parse_pdos
   (EEPROM source) of ebpfcat/ethercat.py, and the SII layout they decode. *)
From Verif Require Export Lib.Bytes.

(* ---------------- the EEPROM interface of the ESC (environment) --------- *)
(* bytes [2*w, 2*w + n) of the image; beyond the end the device returns 0xff *)
Definition img_bytes (img : list Z) (w : Z) (n : nat) : list Z :=
  firstn n (skipn (Z.to_nat (2 * w)) img ++ repeat 255 n).

(* one register read of 0x502..: (status word, 8 data bytes).  In 8-byte
   mode (bit 0x40) all eight bytes are EEPROM data, otherwise only four and
   the rest is arbitrary (`junk`). *)
Record esc_reply := { r_status : Z; r_data : list Z }.

(* _eeprom_read_one: the polls that return busy are skipped by the loops, so
   the model takes the first non-busy reply of each phase.  mode8 = bit 0x40. *)
Definition eeprom_read_one (img : list Z) (mode8 : bool) (junk : list Z) (start : Z) : list Z :=
  let data := if mode8 then img_bytes img start 8
              else img_bytes img start 4 ++ firstn 4 (junk ++ repeat 0 4) in
  if mode8 then data
  else firstn 4 data ++ img_bytes img (start + 2) 4.

(* ---------------- read_eeprom ------------------------------------------ *)
Record rd_state := { rd_pos : Z; rd_buf : list Z }.

(* get_data(size): refill in 8-byte steps (pos += 4 words), then split *)
Fixpoint refill (fuel : nat) (rd : Z -> list Z) (size : nat) (s : rd_state) : rd_state :=
  match fuel with
  | O => s
  | S k => if (length (rd_buf s) <? size)%nat
           then refill k rd size {| rd_pos := rd_pos s + 4; rd_buf := rd_buf s ++ rd (rd_pos s) |}
           else s
  end.
Definition get_data (rd : Z -> list Z) (size : nat) (s : rd_state) : list Z * rd_state :=
  let s' := refill (S size) rd size s in
  (firstn size (rd_buf s'), {| rd_pos := rd_pos s'; rd_buf := skipn size (rd_buf s') |}).

(* the category loop; fuel bounds the number of categories *)
Fixpoint read_cats (fuel : nat) (rd : Z -> list Z) (s : rd_state) (acc : list (Z * list Z))
  : option (list (Z * list Z)) :=
  match fuel with
  | O => None
  | S k =>
      let '(h, s1) := get_data rd 4 s in
      let hd := le_val (firstn 2 h) in
      let ws := le_val (skipn 2 h) in
      if hd =? 65535 then Some (rev acc)
      else let '(c, s2) := get_data rd (Z.to_nat (ws * 2)) s1 in
           read_cats k rd s2 ((hd, c) :: acc)
  end.

Record identity := { vendorId : Z; productCode : Z; revisionNo : Z; serialNo : Z }.

Definition read_eeprom (fuel : nat) (rd : Z -> list Z) : identity * option (list (Z * list Z)) :=
  let a := rd 8 in
  let b := rd 12 in
  ({| vendorId := le_val (firstn 4 a); productCode := le_val (skipn 4 a);
      revisionNo := le_val (firstn 4 b); serialNo := le_val (skipn 4 b) |},
   read_cats fuel rd {| rd_pos := 64; rd_buf := [] |} []).

(* the Python dict built from the category list: later entries win *)
Fixpoint dict_get (k : Z) (l : list (Z * list Z)) : option (list Z) :=
  match l with
  | [] => None
  | (k', v) :: tl => match dict_get k tl with Some x => Some x | None => if k =? k' then Some v else None end
  end.

(* ---------------- SII layout (specification) ---------------------------- *)
(* categories start at word 0x40; each: type, word size, content; 0xffff ends *)
Fixpoint enc_cats (cats : list (Z * list Z)) : list Z :=
  match cats with
  | [] => le_bytes 2 65535
  | (ty, c) :: tl => le_bytes 2 ty ++ le_bytes 2 (zlen c / 2) ++ c ++ enc_cats tl
  end.

Definition cat_ok (c : Z * list Z) : Prop :=
  0 <= fst c < 65535 /\ Z.even (zlen (snd c)) = true /\ zlen (snd c) / 2 < 65536.

(* ---------------- parse_sync_managers ---------------------------------- *)
Record sm_layout := { mbx_out : option (Z * Z); mbx_in : option (Z * Z);
                      pdo_out : option (Z * Z); pdo_in : option (Z * Z);
                      pdo_out_addr : Z; pdo_in_addr : Z }.
Definition sm_init : sm_layout :=
  {| mbx_out := None; mbx_in := None; pdo_out := None; pdo_in := None;
     pdo_out_addr := 2064; pdo_in_addr := 2072 |}.

(* for i in range(0, len(data), 8): offset, size, mode = unpack_from("<HHB", data, i) *)
Fixpoint parse_sms (fuel : nat) (i : Z) (data : list Z) (l : sm_layout) : option sm_layout :=
  match fuel with
  | O => Some l
  | S k =>
      match data with
      | [] => Some l
      | _ =>
          if (length data <? 5)%nat then None (* struct.error *) else
          let off := le_val (firstn 2 data) in
          let sz := le_val (firstn 2 (skipn 2 data)) in
          let mode := Z.land (nth 4 data 0) 15 in
          let l' :=
            if mode =? 0 then {| mbx_out := mbx_out l; mbx_in := mbx_in l; pdo_out := pdo_out l;
                                 pdo_in := Some (off, sz); pdo_out_addr := pdo_out_addr l; pdo_in_addr := 2048 + i |}
            else if mode =? 2 then {| mbx_out := mbx_out l; mbx_in := Some (off, sz); pdo_out := pdo_out l;
                                      pdo_in := pdo_in l; pdo_out_addr := pdo_out_addr l; pdo_in_addr := pdo_in_addr l |}
            else if mode =? 4 then {| mbx_out := mbx_out l; mbx_in := mbx_in l; pdo_out := Some (off, sz);
                                      pdo_in := pdo_in l; pdo_out_addr := 2048 + i; pdo_in_addr := pdo_in_addr l |}
            else if mode =? 6 then {| mbx_out := Some (off, sz); mbx_in := mbx_in l; pdo_out := pdo_out l;
                                      pdo_in := pdo_in l; pdo_out_addr := pdo_out_addr l; pdo_in_addr := pdo_in_addr l |}
            else l in
          parse_sms k (i + 8) (skipn 8 data) l'
      end
  end.

(* SII sync manager entry: start(2) length(2) control(1) status(1) enable(1) type(1) *)
Record sm_entry := { sm_start : Z; sm_len : Z; sm_ctl : Z; sm_rest : list Z (* 3 bytes *) }.
Definition enc_sm (e : sm_entry) : list Z :=
  le_bytes 2 (sm_start e) ++ le_bytes 2 (sm_len e) ++ [sm_ctl e] ++ sm_rest e.

(* ---------------- parse_pdos (EEPROM) ----------------------------------- *)
(* PDO header: index(2) nEntries(1) sm(1) sync(1) name(1) flags(2); entry:
   index(2) subindex(1) name(1) type(1) bitlen(1) flags(2) *)
Fixpoint parse_entries (n : nat) (s : list Z) : option (list (Z * Z * Z) * list Z) :=
  match n with
  | O => Some ([], s)
  | S k =>
      if (length s <? 8)%nat then None else
      match parse_entries k (skipn 8 s) with
      | None => None
      | Some (es, rest) => Some ((le_val (firstn 2 s), nth 2 s 0, nth 5 s 0) :: es, rest)
      end
  end.

Fixpoint parse_pdo_cat (fuel : nat) (s : list Z) : option (list (Z * Z * Z)) :=
  match fuel with
  | O => None
  | S k =>
      match s with
      | [] => Some []
      | _ =>
          if (length s <? 8)%nat then None else
          match parse_entries (Z.to_nat (nth 2 s 0)) (skipn 8 s) with
          | None => None
          | Some (es, rest) => option_map (app es) (parse_pdo_cat k rest)
          end
      end
  end.

Inductive pdo_pos := PBit (byte bit : Z) | PFmt (byte : Z) (bits : Z).

(* parse(): None = RuntimeError / KeyError *)
Fixpoint layout (es : list (Z * Z * Z)) (bitpos : Z) (acc : list (Z * Z * pdo_pos))
  : option (list (Z * Z * pdo_pos) * Z) :=
  match es with
  | [] => Some (rev acc, bitpos)
  | (idx, sub, bits) :: tl =>
      if idx =? 0 then layout tl (bitpos + bits) acc
      else if bits <? 8 then layout tl (bitpos + bits) ((idx, sub, PBit (bitpos / 8) (bitpos mod 8)) :: acc)
      else if negb (bits mod 8 =? 0) || negb (bitpos mod 8 =? 0) then None
      else if negb ((bits =? 8) || (bits =? 16) || (bits =? 32) || (bits =? 64)) then None
      else layout tl (bitpos + bits) ((idx, sub, PFmt (bitpos / 8) bits) :: acc)
  end.

Record pdo_entry := { e_idx : Z; e_sub : Z; e_name : Z; e_type : Z; e_bits : Z; e_flags : Z }.
Record pdo := { p_idx : Z; p_sm : Z; p_sync : Z; p_name : Z; p_flags : Z; p_entries : list pdo_entry }.
Definition enc_entry (e : pdo_entry) : list Z :=
  le_bytes 2 (e_idx e) ++ [e_sub e; e_name e; e_type e; e_bits e] ++ le_bytes 2 (e_flags e).
Definition enc_pdo (p : pdo) : list Z :=
  le_bytes 2 (p_idx p) ++ [zlen (p_entries p); p_sm p; p_sync p; p_name p] ++ le_bytes 2 (p_flags p)
  ++ flat_map enc_entry (p_entries p).
