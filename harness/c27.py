"""C27: devices.Valve.update/reset against Dev/Valve.v"""
from .common import Check, Err, cbool, clist, cz


class FakeSG:
    """a slow sync group as far as PacketVar / DeviceVar are concerned"""
    def __init__(self, terminal):
        self.current_data = bytearray(8)
        self.pdo_assign = {terminal: {2: 0, 3: 4}}


class C27(Check):
    pid = "C27"
    props_file = "Props/C27.v"
    corr_imports = ["Dev.Valve", "Corr.C27"]
    technique = "Coq proof (case analysis valid for every valve state and clock value, hence every history) + differential correspondence with devices.Valve driven through real TerminalVar/PacketVar/DeviceVar descriptors"
    trusted = ["time.monotonic is replaced by a scripted integer clock (one reading per update, as the code makes)"]
    assumptions = ["clock readings are integers (binary64 represents them exactly)"]

    # case: {"safe": bool, "moving": int, "init": (coil,target,error), "evs": [("reset",t)|("target",b)|("update",op,cl,t)]}
    def corpus(self):
        return [
            {"safe": True, "moving": 5, "init": (True, True, False),
             "evs": [("reset", 10), ("target", False), ("update", False, False, 12), ("update", False, False, 15), ("update", False, False, 16)]},
            {"safe": False, "moving": 5, "init": (False, False, False),
             "evs": [("reset", 0), ("target", True), ("update", False, True, 1), ("update", False, True, 5), ("update", True, False, 6), ("update", True, True, 11)]},
            {"safe": False, "moving": 0, "init": (False, True, False), "evs": [("reset", 3), ("update", False, False, 3)]},
        ]

    def gen_cases(self):
        rng = self.rng
        out = []
        for _ in range(500 if self.tier == "quick" else 6000):
            moving = rng.choice([0, 1, 2, 5, 5, 10])
            t = rng.randint(0, 5)
            evs = [("reset", t)]
            for _ in range(rng.randint(1, 14)):
                r = rng.random()
                if r < 0.12:
                    t += rng.choice([0, 1])
                    evs.append(("reset", t))
                elif r < 0.3:
                    evs.append(("target", rng.random() < 0.5))
                else:
                    t += rng.choice([0, 1, 1, 2, moving, moving - 1, moving + 1]) if rng.random() < 0.8 else rng.randint(0, 12)
                    t = max(t, 0)
                    evs.append(("update", rng.random() < 0.5, rng.random() < 0.5, t))
            out.append({"safe": rng.random() < 0.4, "moving": moving,
                        "init": (rng.random() < 0.5, rng.random() < 0.5, rng.random() < 0.5), "evs": evs})
        return out

    def run_impl(self, case):
        import ebpfcat.devices as devices
        from ebpfcat.ebpfcat import PacketVar
        from ebpfcat.ethercat import SyncManager

        class Term:
            pass
        term = Term()
        clock = [0]
        saved = devices.monotonic
        devices.monotonic = lambda: clock[0]
        try:
            v = devices.Valve()
            v.safeState = case["safe"]
            v.movingTime = case["moving"]
            v.coil = PacketVar(term, SyncManager.OUT, 1, 3)         # bit 3 of out byte 1
            v.openSwitch = PacketVar(term, SyncManager.IN, 0, 0)    # bit 0 of in byte 0
            v.closedSwitch = PacketVar(term, SyncManager.IN, 0, 5)  # bit 5 of in byte 0
            sg = FakeSG(term)
            sg.pdo_assign = {term: {SyncManager.OUT: 0, SyncManager.IN: 4}}
            v.sync_group = sg
            c0, t0, e0 = case["init"]
            v.coil = c0
            v.target = t0
            v.error = e0
            v.lastGood = 0
            trace = []
            swap_at = len(case["evs"]) // 2 if len(case["evs"]) % 3 == 0 else None
            for k, ev in enumerate(case["evs"]):
                if k == swap_at:
                    # the sync group gets a NEW process image with the same content (what a restart of the group does): the valve
                    # must go on reading and writing the current one
                    sg.current_data = bytearray(sg.current_data)
                if ev[0] == "reset":
                    clock[0] = ev[1]
                    v.reset()
                elif ev[0] == "target":
                    v.target = ev[1]
                else:
                    _, op, cl, t = ev
                    clock[0] = t
                    sg.current_data[4] = (1 if op else 0) | (0x20 if cl else 0) | 0x4a
                    v.update()
                trace.append([bool(v.coil), bool(v.target), bool(v.error), int(v.lastGood)])
            return trace
        finally:
            devices.monotonic = saved

    def model_term(self, case):
        evs = []
        for ev in case["evs"]:
            if ev[0] == "reset":
                evs.append(f"EReset {cz(ev[1])}")
            elif ev[0] == "target":
                evs.append(f"ESetTarget {cbool(ev[1])}")
            else:
                evs.append(f"EUpdate {cbool(ev[1])} {cbool(ev[2])} {cz(ev[3])}")
        c0, t0, e0 = case["init"]
        return f"(run {cbool(case['safe'])} {cz(case['moving'])} {cbool(c0)} {cbool(t0)} {cbool(e0)} {clist(evs)})"

    def holds(self, case, o):
        if isinstance(o, Err):
            return f"harness: {o.what}"
        coil, target, error = case["init"]
        safe, moving = case["safe"], case["moving"]
        last = 0
        seen_reset = False
        for ev, (c2, t2, e2, lg2) in zip(case["evs"], o):
            if ev[0] == "reset":
                seen_reset, last, error = True, ev[1], False
                if (c2, t2, e2) != (coil, target, False):
                    return f"reset changed coil/target or left the error set: {(c2, t2, e2)}"
            elif ev[0] == "target":
                target = ev[1]
                if (c2, t2, e2) != (coil, target, error):
                    return "setting the target changed something else"
            else:
                _, op, cl, now = ev
                if safe is False:
                    confirmed = (op and not cl) if coil else (cl and not op)
                else:  # position check only specified for the default safe state; take the code's reading
                    confirmed = (op != cl) and ((cl or not op) if coil == safe else (op or not cl))
                if confirmed:
                    last = now
                if confirmed or now - last < moving:
                    want = (target, target, error)
                else:
                    want = (safe, safe, True)
                    error = True
                if seen_reset and (c2, t2, e2) != want:
                    return (f"update(open={op}, closed={cl}, now={now}) with coil={coil} target={target} safe={safe} "
                            f"last confirmed {last}, moving {moving}: got coil/target/error {(c2, t2, e2)}, expected {want}")
            coil, target, error = c2, t2, e2
            if seen_reset and ev[0] != "target" and False:
                pass
        return True

    def nontrivial(self, case, o):
        return not isinstance(o, Err) and any(x[2] for x in o)   # an error was raised at some point

    def search_cases(self):
        out = []
        for safe in (False, True):
            for c0 in (False, True):
                for t0 in (False, True):
                    for op in (False, True):
                        for cl in (False, True):
                            for dt in (0, 4, 5, 6):
                                out.append({"safe": safe, "moving": 5, "init": (c0, t0, False),
                                            "evs": [("reset", 0), ("update", op, cl, dt), ("update", op, cl, dt + 5)]})
        return out

    def rule(self):
        return ("histories: reset, then 1-14 events (target changes, resets, updates with random switch readings and clock advances "
                "clustered around the moving time), both safe states, moving times 0..10; in a third of the histories the sync group gets a new process image (same content) half way, as a restart of the group does; non-trivial = the history raises the error at least once")

    def distribution(self, cases, observed):
        d = {"updates": 0, "errors_raised": 0, "safe_true": 0}
        for c, o in zip(cases, observed):
            d["updates"] += sum(e[0] == "update" for e in c["evs"])
            d["safe_true"] += c["safe"]
            if not isinstance(o, Err):
                d["errors_raised"] += any(x[2] for x in o)
        return d

    def describe(self, case):
        return {"safe": case["safe"], "moving": case["moving"], "init": list(case["init"]), "evs": [list(e) for e in case["evs"]]}

    def case_from_json(self, w):
        return {"safe": w["safe"], "moving": w["moving"], "init": tuple(w["init"]), "evs": [tuple(e) for e in w["evs"]]}


CHECK = C27
