From Verif Require Import Sys.MbxLock.

(* ------------------------------ Part A ------------------------------ *)
Fixpoint brk (cur : option nat) (l : list alog) : option (option nat) :=
  match l with
  | [] => Some cur
  | Granted u :: tl => match cur with None => brk (Some u) tl | Some _ => None end
  | Sent u _ :: tl => match cur with Some h => if Nat.eqb h u then brk cur tl else None | None => None end
  | Released u :: tl => match cur with Some h => if Nat.eqb h u then brk None tl else None | None => None end
  end.

Lemma brk_bracketed cur l : bracketed cur l = true <-> brk cur l <> None.
Proof.
  revert cur. induction l as [|[u|u c|u] tl IH]; intros cur; cbn [bracketed brk].
  - split; [discriminate|reflexivity].
  - destruct cur; [split; [discriminate|congruence]|apply IH].
  - destruct cur as [h|]; [|split; [discriminate|congruence]].
    destruct (Nat.eqb h u); cbn [andb]; [apply IH|split; [discriminate|congruence]].
  - destruct cur as [h|]; [|split; [discriminate|congruence]].
    destruct (Nat.eqb h u); cbn [andb]; [apply IH|split; [discriminate|congruence]].
Qed.

Lemma brk_app l : forall cur l', brk cur (l ++ l') = match brk cur l with Some c => brk c l' | None => None end.
Proof.
  induction l as [|[u|u c|u] tl IH]; intros cur l'; cbn [app brk]; [reflexivity| | |].
  - destruct cur; [reflexivity|apply IH].
  - destruct cur as [h|]; [|reflexivity]. destruct (Nat.eqb h u); [apply IH|reflexivity].
  - destruct cur as [h|]; [|reflexivity]. destruct (Nat.eqb h u); [apply IH|reflexivity].
Qed.

Fixpoint chn (prev : option Z) (l : list Z) : option (option Z) :=
  match l with
  | [] => Some prev
  | c :: tl => if (match prev with None => c =? 0 | Some p => c =? next_counter p end) then chn (Some c) tl else None
  end.

Lemma chn_chain prev l : chain prev l = true <-> chn prev l <> None.
Proof.
  revert prev. induction l as [|c tl IH]; intros prev; cbn [chain chn]; [split; [discriminate|reflexivity]|].
  destruct (match prev with None => c =? 0 | Some p => c =? next_counter p end); cbn [andb];
    [apply IH|split; [discriminate|congruence]].
Qed.

Lemma chn_app l : forall prev l', chn prev (l ++ l') = match chn prev l with Some c => chn c l' | None => None end.
Proof.
  induction l as [|c tl IH]; intros prev l'; cbn [app chn]; [reflexivity|].
  destruct (match prev with None => c =? 0 | Some p => c =? next_counter p end); [apply IH|reflexivity].
Qed.

Definition nextv (lastc : option Z) : Z := match lastc with None => 0 | Some c => next_counter c end.

Record AInv (s : ast) : Prop := {
  a_brk : brk None (log s) = Some (holder s);
  a_chn : exists lastc, chn None (sent_counters (log s)) = Some lastc /\ counter s = nextv lastc }.

Lemma sent_counters_app a b : sent_counters (a ++ b) = sent_counters a ++ sent_counters b.
Proof. unfold sent_counters. apply flat_map_app. Qed.

Lemma ainv0 : AInv ast0.
Proof. constructor; cbn; [reflexivity|exists None; split; reflexivity]. Qed.

Lemma astep_inv s e : AInv s -> AInv (astep s e).
Proof.
  intros [B (lastc & C & N)]. destruct e as [u|u|u]; cbn [astep].
  - destruct (holder s) as [h|] eqn:H; constructor; cbn [log holder counter].
    + exact B.
    + exists lastc. split; assumption.
    + rewrite brk_app, B. reflexivity.
    + exists lastc. rewrite sent_counters_app. cbn. rewrite app_nil_r. split; assumption.
  - destruct (holder s) as [h|] eqn:H; [|constructor; [rewrite ?H; exact B|exists lastc; split; assumption]].
    destruct (Nat.eqb h u) eqn:E; [|constructor; [rewrite ?H; exact B|exists lastc; split; assumption]].
    constructor; cbn [log holder counter].
    + rewrite brk_app, B. cbn [brk]. rewrite E. reflexivity.
    + exists (Some (counter s)). rewrite sent_counters_app, chn_app, C. cbn [sent_counters flat_map app chn].
      split; [|reflexivity]. rewrite N. destruct lastc; cbn [nextv]; rewrite Z.eqb_refl; reflexivity.
  - destruct (holder s) as [h|] eqn:H; [|constructor; [rewrite ?H; exact B|exists lastc; split; assumption]].
    destruct (Nat.eqb h u) eqn:E; [|constructor; [rewrite ?H; exact B|exists lastc; split; assumption]].
    destruct (waiters s) as [|w tl]; constructor; cbn [log holder counter].
    + rewrite brk_app, B. cbn [brk]. rewrite E. reflexivity.
    + exists lastc. rewrite sent_counters_app. cbn. rewrite app_nil_r. split; assumption.
    + rewrite brk_app, B. cbn [brk]. rewrite E. reflexivity.
    + exists lastc. rewrite sent_counters_app. cbn. rewrite app_nil_r. split; assumption.
Qed.

Theorem a_reachable evs : AInv (fold_left astep evs ast0).
Proof.
  assert (G : forall s, AInv s -> AInv (fold_left astep evs s)).
  { induction evs as [|e evs IH]; intros s H; cbn [fold_left]; [exact H|]. apply IH, astep_inv, H. }
  apply G, ainv0.
Qed.

Theorem in_process_serialised evs : let s := fold_left astep evs ast0 in
  bracketed None (log s) = true /\ chain None (sent_counters (log s)) = true.
Proof.
  intros s. destruct (a_reachable evs) as [B (lastc & C & _)]. fold s in B, C. split.
  - apply brk_bracketed. rewrite B. discriminate.
  - apply chn_chain. rewrite C. discriminate.
Qed.

(* ------------------------------ Part B ------------------------------ *)
Definition fileval (s : bst) : Z := match file s with Some c => c | None => 0 end.

Record BInv (s : bst) : Prop := {
  b_excl : forall q, pget s q <> PIdle -> flock s = Some q;
  b_chn : exists lastc, chn None (map snd (btrace s)) = Some lastc /\
          (forall q c, pget s q = PHave c -> c = nextv lastc) /\
          ((forall q c, pget s q <> PHave c) -> fileval s = nextv lastc) }.

Lemma pget_set s p v q u f t : (p < length (procs s))%nat ->
  pget {| file := u; flock := f; procs := pset s p v; btrace := t |} q = if Nat.eqb p q then v else pget s q.
Proof.
  intros L. unfold pget, pset. cbn [procs]. destruct (Nat.eqb_spec p q) as [Epq|N]; [subst q|].
  - now apply nth_set_at_same.
  - now apply nth_set_at_other.
Qed.

Lemma pget_bound s p : pget s p <> PIdle -> (p < length (procs s))%nat.
Proof.
  intros H. destruct (Nat.ltb_spec p (length (procs s))); [assumption|].
  unfold pget in H. rewrite nth_overflow in H by lia. congruence.
Qed.

Lemma binv0 n : BInv (bst0 n).
Proof.
  assert (P : forall q, pget (bst0 n) q = PIdle).
  { intros q. unfold pget, bst0. cbn [procs]. rewrite nth_repeat_any. destruct (q <? n)%nat; reflexivity. }
  constructor.
  - intros q H. rewrite P in H. congruence.
  - exists None. split; [reflexivity|]. split; [intros q c H; rewrite P in H; discriminate|reflexivity].
Qed.

Lemma bstep_inv s e : BInv s -> BInv (bstep s e).
Proof.
  intros [X (lastc & C & H1 & H2)].
  assert (Only : forall p q, pget s p <> PIdle -> pget s q <> PIdle -> p = q).
  { intros p q Hp Hq. pose proof (X _ Hp). pose proof (X _ Hq). congruence. }
  destruct e as [p|p|p|p|p|]; cbn [bstep].
  - (* lock *)
    destruct (flock s) as [h|] eqn:F; [constructor; [rewrite ?F; exact X|exists lastc; auto]|].
    destruct (pget s p) eqn:Ep; try (constructor; [rewrite ?F; exact X|exists lastc; auto]).
    destruct (Nat.ltb_spec p (length (procs s))) as [Lp|Lp]; [|constructor; [rewrite ?F; exact X|exists lastc; auto]].
    assert (Idle : forall q, pget s q = PIdle).
    { intros q. destruct (pget s q) eqn:Eq; try reflexivity; exfalso;
        (assert (Hq : pget s q <> PIdle) by congruence); specialize (X _ Hq); congruence. }
    constructor.
    + intros q Hq. rewrite pget_set in Hq by exact Lp. cbn [flock]. destruct (Nat.eqb_spec p q); [congruence|].
      rewrite Idle in Hq. congruence.
    + exists lastc. cbn [btrace]. split; [exact C|]. split.
      * intros q c Hq. rewrite pget_set in Hq by exact Lp. destruct (Nat.eqb p q); [discriminate|]. rewrite Idle in Hq. discriminate.
      * intros _. unfold fileval. cbn [file]. apply H2. intros q c Hq. rewrite Idle in Hq. discriminate.
  - (* read *)
    destruct (pget s p) eqn:Ep; try (constructor; [exact X|exists lastc; auto]).
    assert (Lp : (p < length (procs s))%nat) by (apply pget_bound; congruence).
    assert (Hp : pget s p <> PIdle) by congruence.
    constructor.
    + intros q Hq. rewrite pget_set in Hq by exact Lp. cbn [flock]. destruct (Nat.eqb_spec p q) as [Epq|N]; [subst q|]; [apply X, Hp|apply X, Hq].
    + exists lastc. cbn [btrace]. split; [exact C|]. split.
      * intros q c Hq. rewrite pget_set in Hq by exact Lp. destruct (Nat.eqb_spec p q) as [Epq|N]; [subst q|].
        -- inversion Hq; subst. fold (fileval s). apply H2. intros q c Hq'.
           assert (q = p) by (apply Only; congruence). subst. congruence.
        -- exfalso. assert (q = p) by (apply Only; congruence). congruence.
      * intros Hn. exfalso. apply (Hn p (fileval s)). rewrite pget_set by exact Lp. rewrite Nat.eqb_refl. reflexivity.
  - (* send *)
    destruct (pget s p) eqn:Ep; try (constructor; [exact X|exists lastc; auto]).
    assert (Lp : (p < length (procs s))%nat) by (apply pget_bound; congruence).
    assert (Hp : pget s p <> PIdle) by congruence.
    pose proof (H1 _ _ Ep) as Ec.
    constructor.
    + intros q Hq. rewrite pget_set in Hq by exact Lp. cbn [flock]. destruct (Nat.eqb_spec p q) as [Epq|N]; [subst q|]; [apply X, Hp|apply X, Hq].
    + exists (Some c). cbn [btrace]. rewrite map_app, chn_app, C. cbn [map snd chn].
      split; [rewrite Ec; destruct lastc; cbn [nextv]; rewrite Z.eqb_refl; reflexivity|]. split.
      * intros q c' Hq. rewrite pget_set in Hq by exact Lp. destruct (Nat.eqb_spec p q) as [Epq|N]; [subst q|].
        -- inversion Hq. reflexivity.
        -- exfalso. assert (q = p) by (apply Only; congruence). congruence.
      * intros Hn. exfalso. apply (Hn p (next_counter c)). rewrite pget_set by exact Lp. rewrite Nat.eqb_refl. reflexivity.
  - (* write *)
    destruct (pget s p) eqn:Ep; try (constructor; [exact X|exists lastc; auto]).
    assert (Lp : (p < length (procs s))%nat) by (apply pget_bound; congruence).
    assert (Hp : pget s p <> PIdle) by congruence.
    pose proof (H1 _ _ Ep) as Ec.
    constructor.
    + intros q Hq. rewrite pget_set in Hq by exact Lp. cbn [flock]. destruct (Nat.eqb_spec p q) as [Epq|N]; [subst q|]; [apply X, Hp|apply X, Hq].
    + exists lastc. cbn [btrace]. split; [exact C|]. split.
      * intros q c' Hq. rewrite pget_set in Hq by exact Lp. destruct (Nat.eqb_spec p q) as [Epq|N]; [subst q|]; [discriminate|].
        exfalso. assert (q = p) by (apply Only; congruence). congruence.
      * intros _. unfold fileval. cbn [file]. exact Ec.
  - (* unlock *)
    destruct (pget s p) eqn:Ep; try (constructor; [exact X|exists lastc; auto]).
    assert (Lp : (p < length (procs s))%nat) by (apply pget_bound; congruence).
    assert (Hp : pget s p <> PIdle) by congruence.
    assert (NoHave : forall q c, pget s q <> PHave c).
    { intros q c Hq. assert (q = p) by (apply Only; congruence). subst. congruence. }
    constructor.
    + intros q Hq. rewrite pget_set in Hq by exact Lp. cbn [flock]. destruct (Nat.eqb_spec p q) as [Epq|N]; [subst q|]; [congruence|].
      exfalso. assert (q = p) by (apply Only; congruence). congruence.
    + exists lastc. cbn [btrace]. split; [exact C|]. split.
      * intros q c Hq. rewrite pget_set in Hq by exact Lp. destruct (Nat.eqb_spec p q) as [Epq|N]; [subst q|]; [discriminate|].
        exfalso. eapply NoHave; eauto.
      * intros _. unfold fileval. cbn [file]. apply H2, NoHave.
  - (* init by the creator *)
    constructor; [exact X|]. exists lastc. cbn [btrace]. split; [exact C|]. split; [exact H1|].
    intros Hn. unfold fileval. cbn [file]. specialize (H2 Hn). unfold fileval in H2. destruct (file s); exact H2.
Qed.

Theorem b_reachable n evs : BInv (fold_left bstep evs (bst0 n)).
Proof.
  assert (G : forall s, BInv s -> BInv (fold_left bstep evs s)).
  { induction evs as [|e evs IH]; intros s H; cbn [fold_left]; [exact H|]. apply IH, bstep_inv, H. }
  apply G, binv0.
Qed.

Theorem cross_process_chain n evs : let s := fold_left bstep evs (bst0 n) in
  chain None (map snd (btrace s)) = true /\
  (forall q, pget s q <> PIdle -> flock s = Some q).
Proof.
  intros s. destruct (b_reachable n evs) as [X (lastc & C & _)]. fold s in X, C. split; [|exact X].
  apply chn_chain. rewrite C. discriminate.
Qed.

(* a participant that opens the file while it is still being created (no byte
   there yet) reads the counter 0 instead of failing *)
Theorem open_during_create s p : file s = None -> pget s p = PLocked ->
  pget (bstep s (BRead p)) p = PHave 0.
Proof.
  intros F L. cbn [bstep]. rewrite L, F.
  rewrite pget_set by (apply pget_bound; congruence). now rewrite Nat.eqb_refl.
Qed.
