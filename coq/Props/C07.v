(* C07 Packet variables access exactly their declared bytes and byte order.
   Model: Gen/Packet.v - which Isa.v operations the generator composes for a
   read (LDX of the unsigned format, END byte swap for explicit orders, sign
   extension afterwards = EVar of C01's model), for a write (byte swap, STX)
   and for the minimum-size guard.  Spec: `unpack` / `pack` = Python's struct.
   The composition is validated on every run against the REAL generated XDP
   code executed in the ISA model on packets around the guard boundary. *)
From Verif Require Import Gen.Arith Gen.Denote Gen.Denote_proofs Gen.Packet Gen.Packet_proofs.

(* a read of ANY format / order from ANY bytes delivers struct.unpack's value
   (reduced to the nd-byte destination) *)
Theorem C07_read : forall f bs nd, In (pf_n f) [1; 2; 4; 8]%nat -> In nd [1; 2; 4; 8]%nat ->
  length bs = pf_n f -> Forall is_byte bs ->
  stored (read_expr f bs) nd = unpack f bs mod 256 ^ Z.of_nat nd.
Proof. exact read_exact. Qed.
Print Assumptions C07_read.

(* a write of ANY value stores struct.pack's bytes at [p, p+n) and changes no
   other byte of the packet, nor its length *)
Theorem C07_write : forall f pk p v pk', pkt_write f pk p v = Some pk' ->
  length pk' = length pk /\
  read_bytes pk' p (pf_n f) = Some (pack f v) /\
  forall i, (Z.of_nat i < p \/ p + Z.of_nat (pf_n f) <= Z.of_nat i) -> nth i pk' 0 = nth i pk 0.
Proof. exact pkt_write_spec. Qed.
Print Assumptions C07_write.

Theorem C07_roundtrip : forall f v, (0 < pf_n f)%nat ->
  (if pf_signed f then - 2 ^ (8 * Z.of_nat (pf_n f) - 1) <= v < 2 ^ (8 * Z.of_nat (pf_n f) - 1)
   else 0 <= v < 256 ^ Z.of_nat (pf_n f)) ->
  unpack f (pack f v) = v.
Proof. exact unpack_pack. Qed.
Print Assumptions C07_roundtrip.

(* the guard: the body runs exactly on packets longer than G, and then every
   access inside the guarded size is inside the packet - so the body runs on no
   packet shorter than its accesses need *)
Theorem C07_guard : forall G len, guard_passes G len = true <-> G < len.
Proof. exact guard_iff. Qed.
Theorem C07_guard_read : forall G pk p n, guard_passes G (zlen pk) = true -> 0 <= p -> p + Z.of_nat n <= G ->
  exists bs, read_bytes pk p n = Some bs /\ length bs = n.
Proof. exact guard_in_bounds. Qed.
Theorem C07_guard_write : forall G pk p f v, guard_passes G (zlen pk) = true -> 0 <= p -> p + Z.of_nat (pf_n f) <= G ->
  exists pk', pkt_write f pk p v = Some pk'.
Proof. exact guard_write_in_bounds. Qed.
Print Assumptions C07_guard_write.

(* non-vacuity: a big-endian signed 2-byte variable *)
Example C07_nonvacuous :
  let f := {| pf_n := 2; pf_signed := true; pf_order := 2 |} in
  stored (read_expr f [255; 254]) 8 = (-2) mod 256 ^ 8 /\ pack f (-2) = [255; 254] /\
  pkt_write f [1; 2; 3; 4; 5] 2 (-2) = Some [1; 2; 255; 254; 5].
Proof. vm_compute. auto. Qed.
