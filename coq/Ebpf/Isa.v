(* eBPF instruction set: decoding of the (opcode, dst, src, off, imm) tuples
   EBPF.assemble() packs, and an executable small-step semantics.
   Registers hold values in [0, 2^64).  Memory consists of disjoint regions
   selected by the upper 32 bits of an address:
     1 = stack (512 bytes, r10 points to its end), 2 = packet, 3 = XDP context,
     4+k = value of map k.
   This model is validated against the running kernel (BPF_PROG_TEST_RUN) by
   harness/isa_check.py when bpf() is permitted. *)
From Verif Require Export Lib.ListX.

Definition W64 : Z := 18446744073709551616.
Definition W32 : Z := 4294967296.
Definition wrap64 (z : Z) : Z := z mod W64.
Definition wrap32 (z : Z) : Z := z mod W32.
Definition sx64 (z : Z) : Z := if z <? W64 / 2 then z else z - W64.
Definition sx32 (z : Z) : Z := let w := z mod W32 in if w <? W32 / 2 then w else w - W32.

Record instr := { i_op : Z; i_dst : nat; i_src : nat; i_off : Z; i_imm : Z }.

Definition region (k : Z) : Z := k * W32.
Definition STACK : Z := 1.
Definition PKT : Z := 2.
Definition CTX : Z := 3.
Definition MAP0 : Z := 4.
Definition MAPFD : Z := 15.      (* pseudo file descriptors loaded by LD_IMM64 src=1 *)

Record mstate := {
  regs : list Z;                 (* r0 .. r10 *)
  stack : list Z;                (* 512 bytes *)
  pkt : list Z;
  maps : list (list Z);          (* value bytes of (single-entry) array maps, by index *)
  oracle : list Z;               (* results of ktime / prandom / tail-call decisions, consumed in order *)
  trace : list Z }.              (* helper calls made *)

Inductive status := Running | Exited | TailCalled (idx : Z) | Fault (why : Z).

Definition reg (s : mstate) (r : nat) : Z := nth r (regs s) 0.
Definition set_reg (s : mstate) (r : nat) (v : Z) : mstate :=
  {| regs := set_at r (wrap64 v) (regs s); stack := stack s; pkt := pkt s; maps := maps s;
     oracle := oracle s; trace := trace s |}.

(* ---- memory ---- *)
Definition read_bytes (l : list Z) (off : Z) (n : nat) : option (list Z) :=
  if (off <? 0) || (zlen l <? off + Z.of_nat n) then None
  else Some (firstn n (skipn (Z.to_nat off) l)).

Definition write_bytes (l : list Z) (off : Z) (b : list Z) : option (list Z) :=
  if (off <? 0) || (zlen l <? off + zlen b) then None
  else Some (firstn (Z.to_nat off) l ++ b ++ skipn (Z.to_nat off + length b) l).

Definition load (s : mstate) (addr : Z) (n : nat) : option Z :=
  let r := addr / W32 in
  let off := addr mod W32 in
  if r =? STACK then option_map le_val (read_bytes (stack s) off n)
  else if r =? PKT then option_map le_val (read_bytes (pkt s) off n)
  else if r =? CTX then
    (* struct xdp_md: data at 0, data_end at 4; the kernel rewrites these loads to pointer loads *)
    if (off =? 0) && Nat.eqb n 4 then Some (region PKT)
    else if (off =? 4) && Nat.eqb n 4 then Some (region PKT + zlen (pkt s))
    else None
  else if (MAP0 <=? r) && (r <? MAP0 + zlen (maps s)) then
    option_map le_val (read_bytes (nth (Z.to_nat (r - MAP0)) (maps s) []) off n)
  else None.

Definition store (s : mstate) (addr : Z) (n : nat) (v : Z) : option mstate :=
  let r := addr / W32 in
  let off := addr mod W32 in
  let b := le_bytes n v in
  if r =? STACK then
    option_map (fun m => {| regs := regs s; stack := m; pkt := pkt s; maps := maps s; oracle := oracle s; trace := trace s |})
               (write_bytes (stack s) off b)
  else if r =? PKT then
    option_map (fun m => {| regs := regs s; stack := stack s; pkt := m; maps := maps s; oracle := oracle s; trace := trace s |})
               (write_bytes (pkt s) off b)
  else if (MAP0 <=? r) && (r <? MAP0 + zlen (maps s)) then
    let k := Z.to_nat (r - MAP0) in
    option_map (fun m => {| regs := regs s; stack := stack s; pkt := pkt s; maps := set_at k m (maps s);
                            oracle := oracle s; trace := trace s |})
               (write_bytes (nth k (maps s) []) off b)
  else None.

(* ---- ALU ---- *)
Definition alu (code : Z) (is64 : bool) (a b : Z) : Z :=
  (* a, b already reduced to the operation width *)
  let w := if is64 then W64 else W32 in
  let bits := if is64 then 64 else 32 in
  let sa := if is64 then sx64 a else sx32 a in
  if code =? 0 then (a + b) mod w                      (* ADD *)
  else if code =? 1 then (a - b) mod w                 (* SUB *)
  else if code =? 2 then (a * b) mod w                 (* MUL *)
  else if code =? 3 then (if b =? 0 then 0 else a / b) (* DIV, unsigned *)
  else if code =? 4 then Z.lor a b
  else if code =? 5 then Z.land a b
  else if code =? 6 then (Z.shiftl a (b mod bits)) mod w
  else if code =? 7 then Z.shiftr a (b mod bits)
  else if code =? 8 then (- a) mod w                   (* NEG *)
  else if code =? 9 then (if b =? 0 then a else a mod b) (* MOD, unsigned *)
  else if code =? 10 then Z.lxor a b
  else if code =? 11 then b                            (* MOV *)
  else if code =? 12 then (Z.shiftr sa (b mod bits)) mod w   (* ARSH *)
  else a.

Definition bswap (n : nat) (v : Z) : Z := le_val (rev (le_bytes n v)).

(* ---- jumps ---- *)
Definition jcond (code : Z) (is64 : bool) (a b : Z) : bool :=
  let sa := if is64 then sx64 a else sx32 a in
  let sb := if is64 then sx64 b else sx32 b in
  if code =? 0 then true                                (* JA *)
  else if code =? 1 then a =? b
  else if code =? 2 then b <? a                         (* JGT *)
  else if code =? 3 then b <=? a                        (* JGE *)
  else if code =? 4 then negb (Z.land a b =? 0)         (* JSET *)
  else if code =? 5 then negb (a =? b)
  else if code =? 6 then sb <? sa                       (* JSGT *)
  else if code =? 7 then sb <=? sa                      (* JSGE *)
  else if code =? 10 then a <? b                        (* JLT *)
  else if code =? 11 then a <=? b                       (* JLE *)
  else if code =? 12 then sa <? sb                      (* JSLT *)
  else if code =? 13 then sa <=? sb                     (* JSLE *)
  else false.

Definition size_of (op : Z) : nat :=
  let sz := Z.land op 24 in
  if sz =? 0 then 4%nat else if sz =? 8 then 2%nat else if sz =? 16 then 1%nat else 8%nat.

Definition poison (k : Z) : Z := 16045690984833335023 + k.   (* 0xdead beef dead beef + k *)

Definition clobber (s : mstate) (r0 : Z) (tag : Z) : mstate :=
  let s1 := set_reg s 0 r0 in
  let s2 := fold_left (fun st k => set_reg st k (poison (Z.of_nat k))) [1; 2; 3; 4; 5]%nat s1 in
  {| regs := regs s2; stack := stack s2; pkt := pkt s2; maps := maps s2; oracle := oracle s2; trace := trace s2 ++ [tag] |}.

Definition pop_oracle (s : mstate) : Z * mstate :=
  match oracle s with
  | [] => (0, s)
  | v :: tl => (v, {| regs := regs s; stack := stack s; pkt := pkt s; maps := maps s; oracle := tl; trace := trace s |})
  end.

(* helper calls used by the generator *)
Definition call (s : mstate) (id : Z) : mstate * status :=
  if id =? 1 then
    (* map_lookup_elem(map, key pointer): single-entry array maps: key 0 -> pointer to the value, else NULL *)
    let m := reg s 1 - region MAPFD in
    match load s (reg s 2) 4 with
    | None => (s, Fault 11)
    | Some key =>
        if (0 <=? m) && (m <? zlen (maps s)) && (key =? 0)
        then (clobber s (region (MAP0 + m)) 1, Running)
        else (clobber s 0 1, Running)
    end
  else if (id =? 5) || (id =? 7) then
    let '(v, s') := pop_oracle s in
    (clobber s' (if id =? 7 then v mod W32 else v) id, Running)
  else if id =? 12 then
    (* tail_call(ctx, prog_array, index): the oracle says whether a program is registered there *)
    let '(v, s') := pop_oracle s in
    if v =? 0 then (clobber s' 0 12, Running) else (s', TailCalled (reg s 3 mod W32))
  else (s, Fault 12).

(* one instruction at pc; returns the new pc *)
Definition step (prog : list instr) (pc : nat) (s : mstate) : mstate * status * nat :=
  match nth_error prog pc with
  | None => (s, Fault 1, pc)
  | Some i =>
      let op := i_op i in
      let cls := Z.land op 7 in
      let d := i_dst i in
      let imm := i_imm i in
      if (cls =? 7) || (cls =? 4) then
        let is64 := cls =? 7 in
        let code := op / 16 in
        if (code =? 13) && (cls =? 4) then
          (* byte swap: to little endian (src bit 0) is a truncation, to big endian swaps *)
          let n := Z.to_nat (imm / 8) in
          let v := (reg s d) mod 256 ^ Z.of_nat n in
          (set_reg s d (if Z.testbit op 3 then bswap n v else v), Running, S pc)
        else
          let w := if is64 then W64 else W32 in
          let a := (reg s d) mod w in
          let b := (if Z.testbit op 3 then reg s (i_src i) else imm) mod w in
          (set_reg s d (alu code is64 a b), Running, S pc)
      else if (cls =? 5) || (cls =? 6) then
        if op =? 133 then let '(s', st) := call s imm in (s', st, S pc)      (* CALL *)
        else if op =? 149 then (s, Exited, pc)                                 (* EXIT *)
        else
          let is64 := cls =? 5 in
          let w := if is64 then W64 else W32 in
          let a := (reg s d) mod w in
          let b := (if Z.testbit op 3 then reg s (i_src i) else imm) mod w in
          if jcond (op / 16) is64 a b then (s, Running, Z.to_nat (Z.of_nat pc + 1 + i_off i)) else (s, Running, S pc)
      else if cls =? 1 then
        (* LDX *)
        match load s (wrap64 (reg s (i_src i) + i_off i)) (size_of op) with
        | None => (s, Fault 2, pc)
        | Some v => (set_reg s d v, Running, S pc)
        end
      else if cls =? 2 then
        match store s (wrap64 (reg s d + i_off i)) (size_of op) (imm mod 256 ^ Z.of_nat (size_of op)) with
        | None => (s, Fault 3, pc)
        | Some s' => (s', Running, S pc)
        end
      else if cls =? 3 then
        if Z.land op 224 =? 192 then
          (* XADD: atomic add *)
          let n := size_of op in
          let addr := wrap64 (reg s d + i_off i) in
          match load s addr n with
          | None => (s, Fault 4, pc)
          | Some old =>
              match store s addr n ((old + reg s (i_src i)) mod 256 ^ Z.of_nat n) with
              | None => (s, Fault 4, pc)
              | Some s' => (s', Running, S pc)
              end
          end
        else
          match store s (wrap64 (reg s d + i_off i)) (size_of op) (reg s (i_src i) mod 256 ^ Z.of_nat (size_of op)) with
          | None => (s, Fault 3, pc)
          | Some s' => (s', Running, S pc)
          end
      else if op =? 24 then
        (* LD_IMM64: two slots *)
        match nth_error prog (S pc) with
        | None => (s, Fault 5, pc)
        | Some i2 =>
            let v := (imm mod W32) + W32 * (i_imm i2 mod W32) in
            (set_reg s d (if Nat.eqb (i_src i) 1 then region MAPFD + (imm mod W32) else v), Running, S (S pc))
        end
      else (s, Fault 6, pc)
  end.

Fixpoint run (fuel : nat) (prog : list instr) (pc : nat) (s : mstate) : mstate * status :=
  match fuel with
  | O => (s, Fault 99)
  | S k =>
      let '(s', st, pc') := step prog pc s in
      match st with
      | Running => run k prog pc' s'
      | _ => (s', st)
      end
  end.

Definition init_state (pk : list Z) (ms : list (list Z)) (orc : list Z) : mstate :=
  {| regs := [0; region CTX; 0; 0; 0; 0; 0; 0; 0; 0; region STACK + 512];
     stack := repeat 0 512; pkt := pk; maps := ms; oracle := orc; trace := [] |}.
