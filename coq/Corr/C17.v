From Verif Require Import Lib.Base Ecat.Eeprom.

(* Python dict semantics on an association list: first position, last value *)
Fixpoint dict_set (k : Z) (v : V) (l : list (Z * V)) : list (Z * V) :=
  match l with
  | [] => [(k, v)]
  | (k', v') :: tl => if k =? k' then (k, v) :: tl else (k', v') :: dict_set k v tl
  end.
Definition to_dict (l : list (Z * V)) : list (Z * V) := fold_left (fun d kv => dict_set (fst kv) (snd kv) d) l [].
Definition v_dict (d : list (Z * V)) : V := VL (map (fun kv => VL [VZ (fst kv); snd kv]) d).

Definition v_pair (o : option (Z * Z)) : V := match o with None => VNone | Some (a, b) => VL [VZ a; VZ b] end.
Definition v_sm (o : option sm_layout) : V :=
  match o with
  | None => VErr 1
  | Some l => VL [v_pair (mbx_out l); v_pair (mbx_in l); v_pair (pdo_out l); v_pair (pdo_in l);
                  VZ (pdo_out_addr l); VZ (pdo_in_addr l)]
  end.

Definition v_pos (sm : Z) (p : pdo_pos) : V :=
  match p with PBit by_ bi => VL [VZ sm; VZ by_; VZ 0; VZ bi] | PFmt by_ bits => VL [VZ sm; VZ by_; VZ 1; VZ bits] end.

(* parse_pdos for one category: entries -> dict items, total bits *)
Definition pdo_side (sm : Z) (cat : option (list Z)) : option (list (Z * V) * Z) :=
  match cat with
  | None => Some ([], 0)
  | Some s =>
      match parse_pdo_cat (S (length s)) s with
      | None => None
      | Some es =>
          match layout es 0 [] with
          | None => None
          | Some (l, bits) => Some (map (fun e => (fst (fst e) * 256 + snd (fst e), v_pos sm (snd e))) l, bits)
          end
      end
  end.

Definition run (img : list Z) (mode8 : bool) : V :=
  let rd := eeprom_read_one img mode8 [] in
  let '(idn, cats) := read_eeprom (S (length img)) rd in
  match cats with
  | None => VErr 8
  | Some cs =>
      let d := to_dict (map (fun c => (fst c, VB (snd c))) cs) in
      let sm := match dict_get 41 cs with None => VNone | Some s => v_sm (parse_sms (S (length s)) 0 s sm_init) end in
      let pd := match pdo_side 2 (dict_get 51 cs), pdo_side 3 (dict_get 50 cs) with
                | Some (lo, bo), Some (li, bi) => VL [v_dict (to_dict (lo ++ li)); VZ bo; VZ bi]
                | _, _ => VErr 6
                end in
      VL [VL [VZ (vendorId idn); VZ (productCode idn); VZ (revisionNo idn); VZ (serialNo idn)];
          v_dict d; sm; pd]
  end.
