"""Expression trees for the generator checks (C01-C04): random generation,
exact-integer meaning, range precondition of the property, classification."""
from .dsl import fmt_signed, fmt_size

RING = {"+", "-", "*", "&", "|", "^", "<<", "neg"}
NONRING = {"//", "%", ">>", "abs"}
FMTS = ["b", "B", "h", "H", "i", "I", "q", "Q"]
BOUNDARY64 = [0, 1, -1, 2, 0x7f, 0x80, 0xff, 0x7fff, 0x8000, 0xffff, 0x7fffffff, 0x80000000, 0xffffffff, 0x100000000,
              -0x80000000, -0x80000001, 2 ** 63 - 1, -2 ** 63, 2 ** 64 - 1, 12345678901234567]


def rand_value(rng, fmt):
    n, signed = fmt_size(fmt), fmt_signed(fmt)
    lo, hi = (-(1 << (8 * n - 1)), (1 << (8 * n - 1)) - 1) if signed else (0, (1 << 8 * n) - 1)
    r = rng.random()
    if r < 0.45:
        return rng.choice([lo, hi, 0, 1, hi - 1, lo + 1] + ([-1] if signed else [hi // 2 + 1]))
    if r < 0.75:
        return rng.randint(max(lo, -100), min(hi, 100))
    return rng.randint(lo, hi)


class Env:
    """variables: name -> (storage, fmt, value); registers: (kind, no) -> 64-bit content"""
    def __init__(self, variables, regs):
        self.vars, self.regs = variables, regs

    def value(self, x):
        if x[0] == "v":
            return self.vars[x[1]][2]
        kind, no = x[1], x[2]
        c = self.regs[no] % (1 << 64)
        if kind == "r":
            return c
        if kind == "sr":
            return c - (1 << 64) if c >= 1 << 63 else c
        c &= 0xffffffff
        if kind == "w":
            return c
        return c - (1 << 32) if c >= 1 << 31 else c


def leaf_info(x, env):
    """(bytes wide or None for constants, signed)"""
    if x[0] == "c":
        return None, x[1] < 0
    if x[0] == "v":
        fmt = env.vars[x[1]][1]
        return fmt_size(fmt), fmt_signed(fmt)
    return (8 if x[1] in ("r", "sr") else 4), x[1] in ("sr", "sw")


def leaves(x):
    if x[0] in ("c", "v", "r"):
        return [x]
    return [l for sub in x[1:] for l in leaves(sub)]


def ops_of(x):
    if x[0] in ("c", "v", "r"):
        return set()
    return {x[0]}.union(*[ops_of(s) for s in x[1:]])


def signed_of(x, env):
    """signedness the DSL gives an expression: signed as soon as one operand is signed
    (negation is signed, abs is not)"""
    if x[0] in ("c", "v", "r"):
        return leaf_info(x, env)[1]
    if x[0] == "neg":
        return True
    if x[0] == "abs":
        return False
    if x[0] == ">>":
        return signed_of(x[1], env)
    if x[0] == "&":
        return all(signed_of(s, env) for s in x[1:])       # negative only if both operands are
    return any(signed_of(s, env) for s in x[1:])


def width_of_statement(dest_size, expr, env):
    narrow = dest_size <= 4 or any((leaf_info(l, env)[0] or 8) <= 4 for l in leaves(expr))
    return 32 if narrow else 64


def fits(v, W, signed):
    return -(1 << (W - 1)) <= v < (1 << (W - 1)) if signed else 0 <= v < (1 << W)


def meaning(x, env, W):
    """(exact value, [acceptable values], precondition ok, reason) - the list has the floor and
    the truncating result where the property allows both"""
    if x[0] == "c":
        return [x[1]], True, ""
    if x[0] in ("v", "r"):
        return [env.value(x)], True, ""
    if x[0] in ("neg", "abs"):
        vals, ok, why = meaning(x[1], env, W)
        if x[0] == "neg":
            return [-v for v in vals], ok, why
        sg = signed_of(x[1], env)
        good = ok and all(fits(v, W, sg) for v in vals)
        return [abs(v) for v in vals], good, why or ("" if good else "abs operand does not fit")
    la, oka, whya = meaning(x[1], env, W)
    lb, okb, whyb = meaning(x[2], env, W)
    ok, why = oka and okb, whya or whyb
    op = x[0]
    sg = signed_of(x, env) if op != ">>" else signed_of(x[1], env)
    out = []
    for a in la:
        for b in lb:
            if op == "+":
                out.append(a + b)
            elif op == "-":
                out.append(a - b)
            elif op == "*":
                out.append(a * b)
            elif op == "&":
                out.append(a & b)
            elif op == "|":
                out.append(a | b)
            elif op == "^":
                out.append(a ^ b)
            elif op == "<<":
                if not 0 <= b < W:
                    ok, why = False, why or "shift amount not below the width"
                    out.append(0)
                else:
                    out.append(a << b)
            elif op == ">>":
                if not 0 <= b < W:
                    ok, why = False, why or "shift amount not below the width"
                    out.append(0)
                else:
                    out.append(a >> b)
                    if not fits(a, W, sg):
                        ok, why = False, why or ">> operand does not fit"
            elif op in ("//", "%"):
                if b == 0:
                    ok, why = False, why or "zero divisor"
                    out.append(0)
                    continue
                if not (fits(a, W, sg) and fits(b, W, sg)):
                    ok, why = False, why or "division operand does not fit"
                q_floor = a // b
                q_trunc = abs(a) // abs(b) * (1 if (a < 0) == (b < 0) else -1)
                if op == "//":
                    out += [q_floor, q_trunc]
                else:
                    out += [a - b * q_floor, a - b * q_trunc]
    return sorted(set(out)), ok, why


def rand_leaf(rng, names, regs, allow_const=True):
    r = rng.random()
    if r < 0.55 and names:
        return ["v", rng.choice(names)]
    if r < 0.75 and regs:
        kind, no = rng.choice(regs)
        return ["r", kind, no]
    if allow_const:
        c = rng.choice(BOUNDARY64 + [rng.randint(-50, 50)] * 8 + [rng.randrange(-2 ** 63, 2 ** 64)])
        return ["c", c]
    return ["v", rng.choice(names)]


def rand_expr(rng, names, regs, depth, ops):
    if depth == 0 or rng.random() < 0.15:
        return rand_leaf(rng, names, regs)
    op = rng.choice(ops)
    if op in ("neg", "abs"):
        return [op, rand_expr(rng, names, regs, depth - 1, ops)]
    a = rand_expr(rng, names, regs, depth - 1, ops)
    b = rand_expr(rng, names, regs, depth - 1, ops)
    if a[0] == "c" and b[0] == "c":
        a = rand_leaf(rng, names, regs, allow_const=False)     # int op int is plain Python
    if op in ("<<", ">>") and rng.random() < 0.85:
        b = ["c", rng.choice([0, 1, 3, 7, 15, 31, 32, 63])]
    return [op, a, b]
