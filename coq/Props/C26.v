(* C26 The fast Motor device commands exactly its limited control law.
   Model: Dev/Motor.v `motor_impl` - Motor.program statement by statement with
   the machine semantics of the generated code (64-bit signed stmp register,
   32-bit unsigned DeviceVars, 16-bit signed velocity output); validated on
   every run against the REAL generated program executed in the ISA model.
   `motor_spec` is the control law of the property. *)
From Verif Require Import Dev.Motor Dev.Motor_proofs.

(* for ALL inputs in the property's ranges (any target, position, gain,
   acceleration limit, switch states; velocity limit within the 16-bit output;
   previous velocity within the limit; desired velocity fitting 64 bits) *)
Theorem C26_control_law : forall i, pre i -> motor_impl i = motor_spec i.
Proof. exact motor_correct. Qed.
Print Assumptions C26_control_law.

(* never above the velocity limit, never into an active limit switch, never
   changing by more than the acceleration limit except to stop *)
Theorem C26_safe : forall i, pre i ->
  let v := motor_impl i in
  - vmax i <= v <= vmax i /\
  (low i = true -> 0 <= v) /\ (high i = true -> v <= 0) /\
  (v = 0 \/ - acc i <= v - prev i <= acc i).
Proof. exact motor_safe. Qed.
Print Assumptions C26_safe.

(* the program of the pinned tree stored the acceleration-limited value into
   the 16-bit output BEFORE limiting the velocity (repaired by a fix: commit) *)
Definition motor_impl_pinned (i : inputs) : Z :=
  let st0 := s64 (gain i * (target i - pos i)) in
  let st1 := if s64 (prev i + acc i) <? st0 then s64 (prev i + acc i) else st0 in
  let st2 := if s64 (st1 + acc i) <? prev i then s64 (prev i - acc i) else st1 in
  let v := s16 st2 in
  let v3 := if vmax i <? v then vmax i else v in
  let v4 := if v3 <? - vmax i then - vmax i else v3 in
  let v5 := if low i && (v4 <? 0) then 0 else v4 in
  if high i && (0 <? v5) then 0 else v5.
Theorem C26_pinned_refuted : exists i, pre i /\ motor_impl_pinned i = -1000 /\ motor_spec i = 1000.
Proof.
  exists {| gain := 1; target := 100000; acc := 40000; vmax := 1000; pos := 0; prev := 0; low := false; high := false |}.
  split; [unfold pre, W32; cbn; lia|]. split; vm_compute; reflexivity.
Qed.

Example C26_nonvacuous :
  let i := {| gain := 3; target := 5000; acc := 200; vmax := 1500; pos := -70000; prev := 1400; low := true; high := false |} in
  pre i /\ motor_impl i = 1500.
Proof. split; [unfold pre, W32; cbn; lia|vm_compute; reflexivity]. Qed.
