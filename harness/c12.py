"""C12: EtherCat.sendloop / process_packet / roundtrip_packet / datagram_received
with a scripted transport, against Ecat/SendLoop.v"""
import asyncio
import logging
import signal
import struct

from .common import Check, Err, RLE, clist, cnat, cz
from .c11 import parse_frame
from .c30 import rle_pairs

logging.disable(logging.CRITICAL)
MAXDATA = 1500 - 16 - 12


class Stall(BaseException):
    pass


class C12(Check):
    pid = "C12"
    props_file = "Props/C12.v"
    corr_imports = ["Ecat.SendLoop", "Corr.C12"]
    shard = 60
    technique = "Coq proof (induction over the queued request list for the packing loop; pointwise completion lemma) + differential correspondence with the real sendloop/process_packet under scripted bus behaviour and cancellations"
    trusted = ["asyncio FIFO scheduling: sendloop does not yield while the queue is non-empty, so one run packs exactly the requests queued so far",
               "the scripted transport (records frames, returns them with chosen working counters / loses / duplicates / delays / truncates them)"]
    assumptions = ["responses have the length of the frame sent (truncated responses are generated only in the malformed stream)"]

    # case: {"rounds": [[{"id", "len", "cancel": None|"before"|"inflight"}...]], "frames": [policy...]}
    # policy: {"kind": "ok"|"lost"|"dup"|"delay"|"short", "wkc": [0/1 per datagram]}
    def corpus(self):
        R = lambda i, n, c=None: {"id": i, "len": n, "cancel": c}
        ok = lambda *w: {"kind": "ok", "wkc": list(w)}
        return [
            {"rounds": [[R(1, 4), R(2, 0), R(3, 10)]], "frames": [ok(1, 1, 1)]},
            {"rounds": [[R(1, 4, "inflight"), R(2, 6), R(3, 2)]], "frames": [ok(0, 1, 1)]},      # cancelled + wkc 0
            {"rounds": [[R(1, 4, "before"), R(2, 6), R(3, 2)]], "frames": [ok(0, 1, 0)]},
            {"rounds": [[R(1, MAXDATA + 1), R(2, 3)]], "frames": [ok(1)]},                          # can never fit
            {"rounds": [[R(1, 700), R(2, 700), R(3, 700)]], "frames": [ok(1, 1), ok(1)]},
            {"rounds": [[R(i, 1) for i in range(1, 20)]], "frames": [ok(*[1] * 15), ok(*[1] * 4)]},
            {"rounds": [[R(1, 5), R(2, 5)], [R(3, 5)]], "frames": [{"kind": "lost", "wkc": [1, 1]}, ok(1)]},
            {"rounds": [[R(1, 5), R(2, 5)], [R(3, 5)]], "frames": [{"kind": "dup", "wkc": [1, 0]}, {"kind": "delay", "wkc": [1]}]},
            # a copy of the first response arrives while the frame of the next round is in flight
            {"rounds": [[R(1, 4)], [R(2, 4)], [R(3, 6), R(4, 2)]], "frames": [{"kind": "dup_late", "wkc": [1, 1]}]},
        ]

    def gen_cases(self):
        rng = self.rng
        out = []
        for _ in range(90 if self.tier == "quick" else 2000):
            rid = 0
            rounds = []
            for _r in range(rng.randint(1, 3)):
                rnd = []
                big = rng.random() < 0.3
                for _q in range(rng.choice([1, 2, 3, 5, 8, 17])):
                    rid += 1
                    r = rng.random()
                    if r < 0.04:
                        n = rng.randint(MAXDATA + 1, MAXDATA + 40)      # never fits
                    elif r < 0.08:
                        n = rng.randint(MAXDATA - 2, MAXDATA)            # just fits alone
                    elif big:
                        n = rng.randint(200, 800)
                    else:
                        n = rng.randint(0, 30)
                    rnd.append({"id": rid, "len": n, "cancel": rng.choice([None] * 6 + ["before", "inflight", "inflight"])})
                rounds.append(rnd)
            frames = []
            for _f in range(40):
                kind = rng.choice(["ok"] * 6 + ["lost", "dup", "delay", "dup_late", "dup_late"]) if rng.random() > 0.03 else "short"
                frames.append({"kind": kind, "wkc": [rng.choice([1, 1, 1, 0, 2]) for _ in range(15)]})
            out.append({"rounds": rounds, "frames": frames})
        import random
        rng = random.Random(self.seed + 12)      # its own stream: the cases above stay what they were
        for _ in range(6 if self.tier == "quick" else 60):
            # many frames in flight at once: 17-30 requests submitted one per event-loop tick (each leaves in a frame of its own) while
            # the bus holds back every answer
            n = rng.randint(17, 30)
            rnd = [{"id": k + 1, "len": rng.randint(0, 12), "cancel": None} for k in range(n)]
            frames = [{"kind": rng.choice(["ok"] * 9 + ["lost"]), "wkc": [1] * 15} for _ in range(40)]
            out.append({"rounds": [rnd], "frames": frames, "drip": True})
        return out

    def run_impl(self, case):
        from ebpfcat.ethercat import EtherCat, ECCmd, EtherCatError

        sent = []

        class Transport:
            def sendto(self, frame, addr=None):
                sent.append(bytes(frame))

        async def go():
            ec = EtherCat("verif0")
            ec.send_queue = asyncio.Queue()
            ec.transport = Transport()
            loop_task = asyncio.ensure_future(ec.sendloop())
            tasks, info = {}, {}
            frames_done = 0
            delayed = []
            late = []
            frame_log = []       # per frame: ids, states at processing time, response or None
            round_log = []

            def response(frame, pol):
                length, dgs, _ = parse_frame(frame)
                r = bytearray(frame)
                for k, d in enumerate(dgs[1:]):
                    for i in range(d["len"]):
                        r[d["datapos"] + i] ^= 0x5a
                    struct.pack_into("<H", r, d["datapos"] + d["len"], pol["wkc"][k % len(pol["wkc"])])
                if pol["kind"] == "short":
                    r = r[:max(20, len(r) - 7)]
                return bytes(r)

            async def handle_frames():
                nonlocal frames_done
                while frames_done < len(sent):
                    frame = sent[frames_done]
                    pol = case["frames"][frames_done % len(case["frames"])]
                    frames_done += 1
                    # late copies of EARLIER responses arrive while this frame is in flight: they belong to nobody any more
                    while late:
                        ec.datagram_received(late.pop(0), None)
                        await asyncio.sleep(0)
                        await asyncio.sleep(0)
                    length, dgs, _ = parse_frame(frame)
                    ids = [d["addr"] & 0xffff for d in dgs[1:]]
                    for i in ids:
                        if info[i]["cancel"] == "inflight":
                            tasks[i].cancel()
                    await asyncio.sleep(0)
                    states = [tasks[i].done() for i in ids]
                    if pol["kind"] == "lost":
                        frame_log.append((ids, states, None))
                        continue
                    resp = response(frame, pol)
                    if pol["kind"] == "delay":
                        delayed.append((ids, resp))
                        continue
                    ec.datagram_received(resp, None)
                    if pol["kind"] == "dup":
                        ec.datagram_received(resp, None)
                    if pol["kind"] == "dup_late":
                        late.append(resp)
                    frame_log.append((ids, states, resp))
                    await asyncio.sleep(0)
                    await asyncio.sleep(0)

            buffers = {}
            for rnd in case["rounds"]:
                nsent = len(sent)
                for q in rnd:
                    info[q["id"]] = q
                    # the payload comes in every representation a caller may hold it in: bytes, bytearray, memoryview, an array of
                    # 16-bit items (its len() counts items, not bytes); its content is what the request is recognised by
                    raw = bytes([q["id"] & 0xff]) * q["len"]
                    rep = q["id"] % 5
                    if rep in (1, 4):
                        payload = bytearray(raw)
                    elif rep == 2:
                        payload = memoryview(raw)
                    elif rep == 3 and q["len"] % 2 == 0 and q["len"]:
                        import array
                        payload = array.array("H", raw)
                    else:
                        payload = raw
                    buffers[q["id"]] = payload
                    tasks[q["id"]] = asyncio.ensure_future(ec.roundtrip(ECCmd.FPRD, q["id"], 0x10, data=payload))
                    if case.get("drip"):
                        for _ in range(3):
                            await asyncio.sleep(0)
                await asyncio.sleep(0)
                for q in rnd:
                    if q["cancel"] == "before":
                        tasks[q["id"]].cancel()
                        if q["id"] % 5 == 4:
                            # the owner of a cancelled request re-uses its buffer for something else
                            buffers[q["id"]][:] = b"\xee" * (q["len"] // 2 + 3)
                for _ in range(4):
                    await asyncio.sleep(0)
                # frames of this round
                new = sent[nsent:]
                round_log.append([[d["addr"] & 0xffff for d in parse_frame(f)[1][1:]] for f in new])
                await handle_frames()
            for ids, resp in delayed:
                states = [tasks[i].done() for i in ids]
                ec.datagram_received(resp, None)
                frame_log.append((ids, states, resp))
                await asyncio.sleep(0)
                await asyncio.sleep(0)
            for _ in range(5):
                await asyncio.sleep(0)
            outcomes = {}
            for i, t in tasks.items():
                if not t.done():
                    outcomes[i] = [4]
                elif t.cancelled():
                    outcomes[i] = [0]
                else:
                    e = t.exception()
                    if e is None:
                        outcomes[i] = [1, t.result()]
                    elif isinstance(e, EtherCatError):
                        outcomes[i] = [2]
                    elif isinstance(e, OverflowError):
                        outcomes[i] = [5]
                    else:
                        outcomes[i] = [3, type(e).__name__]
            alive = not loop_task.done()
            loop_task.cancel()
            for t in tasks.values():
                t.cancel()
            return {"rounds": round_log, "frames": frame_log, "outcomes": outcomes, "alive": alive, "sent": list(sent)}

        stalled = []

        def on_alarm(*a):
            stalled.append(True)
            raise Stall()
        old = signal.signal(signal.SIGALRM, on_alarm)
        signal.setitimer(signal.ITIMER_REAL, 3.0)
        try:
            try:
                res = asyncio.run(go())
            except ValueError as e:
                # a frame on the wire that cannot be taken apart datagram by datagram (lengths that do not add up)
                return Err(5, f"the master sent a frame that is not a sequence of whole datagrams: {e}")
            except BaseException:
                if not stalled:
                    raise
                res = None
            if stalled:
                return Err(8, "the master stalled (event loop did not get control back within 3 s)")
            return res
        finally:
            signal.setitimer(signal.ITIMER_REAL, 0)
            signal.signal(signal.SIGALRM, old)

    # ---------------- model side
    @staticmethod
    def crq(q):
        return f"{{| q_id := {cz(q['id'])}; q_data := zeros {cnat(q['len'])} |}}"

    def model_term(self, case):
        o = case.get("_o")
        if o is None or isinstance(o, Err) or case.get("drip"):
            return "(VZ 0)"      # (dripped requests: one frame each, outside the burst model of run_round - decided by the oracle)
        info = {q["id"]: q for rnd in case["rounds"] for q in rnd}
        parts = [f"(run_round {clist([self.crq(q) for q in rnd])})" for rnd in case["rounds"]]
        for ids, states, resp in o["frames"]:
            f = clist([self.crq(info[i]) for i in ids])
            st = clist(["FDone" if s else "FPending" for s in states])
            r = "None" if resp is None else "(Some " + clist([f"({cz(v)}, {cnat(n)})" for v, n in rle_pairs(resp)]) + ")"
            parts.append(f"(frame_outcomes {f} {st} {r})")
        return "(VL " + clist(parts) + ")"

    def model_value(self, case, o):
        if isinstance(o, Err) or case.get("drip"):
            return 0
        info = {q["id"]: q for rnd in case["rounds"] for q in rnd}
        vals = []
        for rnd, frames in zip(case["rounds"], o["rounds"]):
            sent_ids = {i for f in frames for i in f}
            bad = [q["id"] for q in rnd if q["id"] not in sent_ids]
            vals.append([frames, bad])
        # outcome of each request as decided when ITS frame was processed
        for ids, states, resp in o["frames"]:
            row = []
            for i, st in zip(ids, states):
                oc = o["outcomes"][i]
                if st:
                    row.append([0])
                elif oc[0] == 1:
                    row.append([1, RLE(oc[1])])
                elif oc[0] == 0:
                    row.append([4] if resp is None else [9])      # cancelled later although pending here: cannot happen
                else:
                    row.append([oc[0]])
            vals.append(row)
        return vals

    # ---------------- the property itself on the real code
    def holds(self, case, o):
        if isinstance(o, Err):
            return o.what
        if not o["alive"]:
            return "sendloop terminated"
        info = {q["id"]: q for rnd in case["rounds"] for q in rnd}
        # sent once, in submission order (requests that can never fit excepted)
        order = [i for rnd in o["rounds"] for f in rnd for i in f]
        want = [q["id"] for rnd in case["rounds"] for q in rnd if q["len"] <= MAXDATA]
        if order != want:
            return f"requests sent as {order}, submitted (and able to fit) {want}"
        for f in o["sent"]:
            if len(f) > 1500:
                return f"frame of {len(f)} bytes sent"
        byframe = {}
        for ids, states, resp in o["frames"]:
            for k, (i, st) in enumerate(zip(ids, states)):
                byframe[i] = (ids, k, st, resp)
        for i, q in info.items():
            oc = o["outcomes"][i]
            if q["len"] > MAXDATA:
                if oc[0] not in (5, 0):
                    return f"request {i} of {q['len']} bytes can never fit but ended as {oc}"
                continue
            if i not in byframe:
                return f"request {i} was never processed"
            ids, k, st, resp = byframe[i]
            if q["cancel"] is not None:
                if oc != [0]:
                    return f"cancelled request {i} ended as {oc}"
                continue
            if resp is None:
                if oc != [4]:
                    return f"request {i}: frame lost but it completed with {oc}"
                continue
            # own position in the response
            try:
                length, dgs, _ = parse_frame(resp)
                d = dgs[1 + k]
            except Exception:
                continue   # truncated response: outside the bus behaviours of the property
            if d["wkc"] == 0:
                if oc != [2]:
                    return f"request {i} was not processed by the bus (wkc 0) but ended as {oc} (others in frame: {ids})"
            elif oc != [1, d["data"]]:
                return (f"request {i} should have completed with its own {len(d['data'])} response bytes, ended as "
                        f"{oc[:1] + ([oc[1][:16]] if len(oc) > 1 else [])} (others in frame: {ids})")
        return True

    def nontrivial(self, case, o):
        return not isinstance(o, Err) and len(o["frames"]) >= 2

    def search_cases(self):
        R = lambda i, n, c=None: {"id": i, "len": n, "cancel": c}
        out = []
        for c in (None, "before", "inflight"):
            for w in ([0, 1, 1], [1, 0, 1], [0, 0, 0], [1, 1, 1]):
                for kind in ("ok", "dup", "delay"):
                    out.append({"rounds": [[R(1, 4, c), R(2, 6), R(3, 2)]], "frames": [{"kind": kind, "wkc": w}]})
        for n in range(MAXDATA - 3, MAXDATA + 4):
            out.append({"rounds": [[R(1, 3), R(2, n), R(3, 5)]], "frames": [{"kind": "ok", "wkc": [1]}]})
        return out

    def rule(self):
        return ("1-3 rounds of 1-17 concurrent datagram requests (data 0-30 bytes, 30% of rounds 200-800 bytes so that frames overflow, 4% requests that can never "
                "fit, 4% that just fit), 30% cancelled before packing or while in flight; per frame: working counters 0/1/2 per datagram, 9% lost, 9% duplicated at once, 18% duplicated with the copy arriving while "
                "a later frame is in flight, 9% delayed past later rounds, 3% truncated; non-trivial = at least two frames processed")

    def distribution(self, cases, observed):
        d = {"requests": 0, "frames": 0, "lost": 0, "cancelled": 0, "oversize": 0, "wkc0": 0, "stalled": 0}
        for c, o in zip(cases, observed):
            d["requests"] += sum(len(r) for r in c["rounds"])
            d["cancelled"] += sum(1 for r in c["rounds"] for q in r if q["cancel"])
            d["oversize"] += sum(1 for r in c["rounds"] for q in r if q["len"] > MAXDATA)
            if isinstance(o, Err):
                d["stalled"] += 1
                continue
            d["frames"] += len(o["frames"])
            d["lost"] += sum(1 for f in o["frames"] if f[2] is None)
            d["wkc0"] += sum(1 for v in o["outcomes"].values() if v == [2])
        return d


_orig = C12.run_impl


def _wrapped(self, case):
    o = _orig(self, case)
    case["_o"] = o
    return o


C12.run_impl = _wrapped
CHECK = C12
