(* C25 Terminal addresses assigned by the master are unique.
   Model: Ecat/Addr.v - find_free_address / assigned_address as concurrent
   tasks whose atomic steps (the code between two awaits) are interleaved in
   any order; random draws are arbitrary; addr range regenerated from source. *)
From Verif Require Import Ecat.Addr Ecat.Addr_proofs.

(* for EVERY bus (pre-assigned / unaddressed terminals), EVERY schedule of the
   atomic steps and EVERY sequence of random draws: addresses handed out lie
   in the range, are never handed out twice and never equal an address at
   which a terminal already answered *)
Theorem C25_unique : forall lo hi pre evs,
  let s := fold_left (step lo hi) evs (init pre) in
  (forall t i, assigned (nth t (tasks s) (TKeep 0)) = Some i -> lo <= i <= hi) /\
  (forall t1 t2 i, t1 <> t2 -> assigned (nth t1 (tasks s) (TKeep 0)) = Some i ->
                   assigned (nth t2 (tasks s) (TKeep 0)) = Some i -> False) /\
  (forall t i k, assigned (nth t (tasks s) (TKeep 0)) = Some i -> nth k pre 0 <> 0 -> nth k pre 0 <> i).
Proof. exact addresses_unique. Qed.
Print Assumptions C25_unique.

(* the full invariant (also: the bus carries exactly the pre-assigned and the
   written addresses) holds in every reachable state *)
Theorem C25_invariant : forall lo hi pre evs, Inv lo hi pre (fold_left (step lo hi) evs (init pre)).
Proof. exact reachable_inv. Qed.
Print Assumptions C25_invariant.

Example C25_range_from_source : addr_range_lo = 1000 /\ addr_range_hi = 30000.
Proof. split; reflexivity. Qed.

Example C25_nonvacuous :
  let s := fold_left (step 1000 1003) [Draw 0 1001; Draw 2 1001; Draw 2 1002; Probed 0; Probed 2; Draw 0 1003; Wrote 2; Probed 0; Wrote 0]
                     (init [0; 1001; 0]) in
  tasks s = [TDone 1003; TKeep 1001; TDone 1002] /\ bus s = [1003; 1001; 1002].
Proof. vm_compute. split; reflexivity. Qed.
