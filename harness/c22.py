"""C22 (and the dispatcher part of C21): the REAL EtherXDP dispatcher bytecode is
executed in the Coq ISA model on foreign frames, group frames of every relation
between frame index and loop counter, registered and unregistered groups, and
compared with Ecat/Dispatch.v; a bounded exploration of frame histories runs on
the validated model."""
import struct

from .common import Check, Err, cbool, eval_terms
from . import ebpf_exec, sim_kernel, isa_check

_BUILT = {}


def build():
    if _BUILT:
        return _BUILT
    from ebpfcat.ebpfcat import EtherXDP
    with sim_kernel.installed() as k:
        e = EtherXDP()
        e.programs = k.create_map(type("T", (), {"name": "PROG_ARRAY"}), 4, 4, 64)
        e.assemble()
        fds = {fd: i for i, fd in enumerate(k.maps)}
        instrs = []
        for ins in e.opcodes:
            op, dst, src, off, imm = ins
            if op.value == 0x18 and src == 1:
                imm = fds.get(imm, 0)
            instrs.append((op.value, dst, src, off, imm))
        _BUILT.update(instrs=instrs, map_size=type(e).variables.size, counters=e.__dict__["counters"], dropcounter=e.__dict__["dropcounter"])
    return _BUILT


def core(c, i):
    """Python transliteration of Ecat/Dispatch.v dispatch_core (cross-checked against it on every run)"""
    b = c % 256
    if i == b:
        c2 = (c + 1 + (b & 1)) % 2 ** 32
        return c2, c2 % 256, "tail"
    if (i + 1) % 256 == b or i == 0:
        c2 = (c + 1) % 2 ** 32
        return c2, c2 % 256, ("tx" if b & 1 else "tail")
    return c, None, "user"


class C22(Check):
    pid = "C22"
    props_file = "Props/C22.v"
    corr_imports = ["Ebpf.Isa", "Corr.Exec", "Ecat.Dispatch", "Corr.C22"]
    technique = ("Coq theorems about the dispatcher model (never drops, foreign frames unchanged, unregistered groups reach user space with the ethertype of the "
                 "identification datagram, after a frame went straight back to the bus the next one runs the program or goes to user space) + the REAL "
                 "dispatcher bytecode executed in the Coq ISA model against the model + bounded exploration of frame histories on the validated model")
    trusted = ["coq/Ebpf/Isa.v (kernel-validated; tail calls and prandom answered by an oracle list)", "harness/sim_kernel.py (map creation while the program is assembled)"]
    assumptions = ["rate = 0 (the random dropper of EtherXDP is off, as in the library)", "the bounded exploration of histories is a search, not a proof"]
    known_classes = {}

    def make_case(self, rng):
        kind = rng.choice(["group"] * 6 + ["foreign", "cmd", "short", "biggroup", "biggroup"])
        L = rng.randint(31, 70)
        f = bytearray(rng.randrange(256) for _ in range(L))
        f[12:14] = b"\x88\xa4"
        f[16] = 0
        g = rng.choice([0, 1, 62, 63, 63]) if rng.random() < 0.3 else rng.randrange(64)      # the first and the last group numbers often
        c = rng.choice([0, 1, 2, 3, 254, 255, 256, 257, 511, 2 ** 32 - 1, 2 ** 32 - 2, rng.randrange(2 ** 32)])
        b = c % 256
        f[17] = rng.choice([b, (b - 1) % 256, 0, (b + 1) % 256, (b - 2) % 256, rng.randrange(256)])
        f[18:22] = struct.pack("<I", g)
        if kind == "foreign":
            f[12:14] = bytes([rng.choice([0x08, 0x88, 0x86]), rng.choice([0x00, 0xa5, 0xdd])])
        elif kind == "cmd":
            f[16] = rng.randrange(1, 256)
        elif kind == "short":
            f = f[:rng.randint(14, 30)]
        elif kind == "biggroup":
            # not a fast group: 64 and above, including addresses whose low 8 / 16 / 24 bits are a group number with a matching counter
            f[18:22] = struct.pack("<I", rng.choice([64, 65, 1000, 2 ** 32 - 1, g + 256 * rng.randint(1, 2 ** 24 - 1), g + 65536 * rng.randint(1, 65535),
                                                      g + 2 ** 24 * rng.randint(1, 255), g + 2 ** 31, g + 64, 2000 + rng.randrange(10 ** 9)]))
        return {"frame": bytes(f).hex(), "g": g, "c": c, "registered": rng.random() < 0.5, "prandom": rng.randrange(2 ** 32),
                "others": rng.randrange(2 ** 32)}

    def gen_cases(self):
        import random
        cases = [self.make_case(self.rng) for _ in range(400 if self.tier == "quick" else 6000)]
        if ebpf_exec.kernel_available():
            rng = random.Random(self.seed + 22)      # its own stream: the cases above stay what they were
            for _ in range(6 if self.tier == "quick" else 40):
                # a whole history on the REAL dispatcher in the running kernel, the loop counter starting below a wrap of its low byte / of its 32 bits
                cases.append({"kind": "history", "g": rng.choice([0, 5, 63]), "c0": rng.choice([0, 1, 200, 250, 65500, 2 ** 32 - 40, rng.randrange(2 ** 32)]),
                              "steps": rng.randint(120, 400), "loss": rng.choice([0, 0.02, 0.1]), "seed": rng.randrange(2 ** 30)})
        return cases

    def run_history(self, case):
        """two frames circulate; a frame handed to user space is replaced by a fresh one (index 0), lost frames are made up for; every
        delivery runs the real dispatcher (BPF_PROG_TEST_RUN), which tail-calls a counting stand-in for the group's program"""
        import ctypes
        import os
        import random
        from ebpfcat import bpf
        from ebpfcat.arraymap import ArrayMap
        from ebpfcat.ebpfcat import EtherXDP, FastEtherCat
        from ebpfcat.xdp import XDP, XDPExitCode
        g, rng = case["g"], random.Random(case["seed"])

        class Group(XDP):
            license = "GPL"
            minimumPacketSize = 30
            variables = ArrayMap()
            runs = variables.globalVar("I")

            def program(self):
                self.runs += 1
                self.exit(XDPExitCode.TX)

        def test_run(prog, frame):
            din = ctypes.create_string_buffer(frame, len(frame))
            dout = ctypes.create_string_buffer(len(frame) + 64)
            _, vals = bpf.bpf(10, "IIIIQQII20x", prog.file_descriptor, 0, len(din), len(dout), ctypes.addressof(din), ctypes.addressof(dout), 1, 0)
            return vals[1], dout.raw[:vals[3]]

        def fresh():
            f = bytearray(60)
            f[0:6], f[6:12], f[12:14] = b"\xff" * 6, b"\x02\0\0\0\0\x01", b"\x88\xa4"
            struct.pack_into("<H", f, 14, 0x1000 | 44)
            struct.pack_into("<I", f, 18, g)
            struct.pack_into("<H", f, 22, 0x8002)
            struct.pack_into("<H", f, 26, 0x3456)
            f[30] = 4
            return bytes(f)
        fds = []
        try:
            programs = bpf.create_map(bpf.MapType.PROG_ARRAY, 4, 4, FastEtherCat.MAX_PROGS)
            fds.append(programs)
            disp = EtherXDP()
            disp.programs = programs
            disp.load()
            group = Group()
            group.load()
            bpf.update_elem(programs, struct.pack("<I", g), struct.pack("<I", group.file_descriptor))
            cs = list(disp.counters)
            cs[g] = case["c0"]
            disp.counters = tuple(cs)
            wire, idle, worst, bad, diffs, ran_total, to_user, lost = [fresh(), fresh()], 0, 0, [], 0, 0, 0, 0
            for step in range(case["steps"]):
                if step and rng.random() < case["loss"]:
                    wire.pop(rng.randrange(len(wire)))
                    wire.append(fresh())
                    lost += 1
                frame = wire.pop(rng.randrange(len(wire)) if rng.random() < 0.2 else 0)
                before, c = group.runs, disp.counters[g]
                verdict, out = test_run(disp, frame)
                ran = group.runs != before
                c2, idx, kd = core(c, frame[17])
                got = "tail" if ran else "tx" if verdict == 3 else "user" if verdict == 2 else f"verdict {verdict}"
                if (got, disp.counters[g]) != (kd, c2) or (kd != "user" and out[17] != idx):
                    diffs += 1
                    if len(bad) < 3:
                        bad.append(f"step {step}: counter {c}, frame index {frame[17]}: the kernel ran the real dispatcher to ({got}, counter {disp.counters[g]}, "
                                   f"index {out[17]}), the dispatch model says ({kd}, counter {c2}, index {idx})")
                if verdict == 3:
                    wire.append(out)
                elif verdict == 2:
                    to_user += 1
                    if out[12:14] != b"\x34\x56":
                        bad.append(f"step {step}: frame handed to user space with ethertype {out[12:14].hex()}")
                    wire.append(fresh())
                else:
                    bad.append(f"step {step}: the dispatcher dropped a frame (verdict {verdict}), loop counter {c}, frame index {frame[17]}")
                    wire.append(fresh())
                idle = 0 if ran else idle + 1
                ran_total += ran
                if idle > 2 and idle > worst:
                    bad.append(f"step {step}: {idle} consecutive frames of registered group {g} passed the dispatcher without its program being run "
                               f"(loop counter {c}, frame index {frame[17]}, verdict {verdict})")
                worst = max(worst, idle)
            return {"bad": bad[:6], "nbad": len(bad), "diffs": diffs, "ran": ran_total, "to_user": to_user, "lost": lost, "worst_idle": worst,
                    "final_counter": disp.counters[g]}
        finally:
            for o in ("disp", "group"):
                fd = getattr(locals().get(o), "file_descriptor", None)
                if fd is not None:
                    fds.append(fd)
            for fd in fds:
                try:
                    os.close(fd)
                except OSError:
                    pass

    def prepare(self, cases):
        b = build()
        self.b = b
        terms = []
        hist = [c for c in cases if c.get("kind") == "history"]
        cases = [c for c in cases if c.get("kind") != "history"]
        for c in cases:
            amap = bytearray(b["map_size"])
            for k in range(64):
                struct.pack_into("<I", amap, b["counters"] + 4 * k, (c["others"] * (k + 1)) % 2 ** 32)
            struct.pack_into("<I", amap, b["counters"] + 4 * c["g"], c["c"])
            c["_map"] = bytes(amap)
            f = bytes.fromhex(c["frame"])
            terms.append(f"(exec_vars P {ebpf_exec.cbytes(f)} [{ebpf_exec.cbytes(amap)}; []] [{c['prandom']}; {1 if c['registered'] else 0}] [])")
        if not terms:
            return ""
        vals, log = eval_terms(self.pid, self.corr_imports, terms, shard=150, preamble=f"Definition P := {ebpf_exec.cprog(b['instrs'])}.")
        for c, v in zip(cases, vals):
            c["_run"] = v
        return log

    def run_impl(self, case):
        if case.get("kind") == "history":
            try:
                return self.run_history(case)
            except Exception as e:      # noqa
                import traceback
                return Err(8, f"{type(e).__name__}: {e} {traceback.format_exc()[-400:]}")
        r = case["_run"]
        if r is None:
            return Err(9, "model evaluation failed")
        status, pkt, maps, stack, regs = r
        pkt = bytes(x for x, n in pkt for _ in range(n))
        if status == [1]:
            act = [regs[0] % 2 ** 32]
        elif status[0] == 2:
            act = [100, status[1]]
        else:
            return Err(7, f"the dispatcher did not end normally: status {status}")
        o = {"frame": pkt.hex(), "map": bytes(maps[0]).hex(), "action": act}
        case["_o"] = o
        return o

    def model_term(self, case):
        if case.get("kind") == "history" or case.get("_o") is None:
            return None
        return f"(run {cbool(case['registered'])} {ebpf_exec.cbytes(bytes.fromhex(case['frame']))} {ebpf_exec.cbytes(case['_map'])})"

    def model_value(self, case, o):
        return [list(bytes.fromhex(o["frame"])), list(bytes.fromhex(o["map"])), o["action"]]

    def holds(self, case, o):
        if isinstance(o, Err):
            return o.what
        if case.get("kind") == "history":
            if o["nbad"] or o["diffs"]:
                return f"history of {case['steps']} deliveries on the real dispatcher in the kernel, loop counter starting at {case['c0']}: {o['bad'][0]} ({o['nbad']} findings, {o['diffs']} differences from the model)"
            return True
        f = bytes.fromhex(case["frame"])
        g2 = bytes.fromhex(o["frame"])
        a = o["action"]
        if a[0] in (0, 1):
            return f"the dispatcher dropped / aborted a frame (exit code {a[0]})"
        group = len(f) > 30 and f[12:14] == b"\x88\xa4" and f[16] == 0
        if not group:
            if a != [2] or g2 != f or o["map"] != case["_map"].hex():
                return f"a frame that is not a group frame was not passed unchanged: action {a}"
            return True
        g = struct.unpack_from("<I", f, 18)[0]
        if g >= 64 or (a == [2]):
            if g2[12:14] != bytes([f[27], f[26]]):
                return f"frame handed to user space with ethertype {g2[12:14].hex()}, the identification datagram says {bytes([f[27], f[26]]).hex()}"
        if g < 64 and not case["registered"] and a[0] == 100:
            return "tail call into an unregistered group"
        return True

    def extra_checks(self):
        out = [isa_check.check(self.seed + 9, 40 if self.tier == "quick" else 300)]
        out.append(self.core_agrees())
        out.append(self.explore())
        return out

    def core_agrees(self):
        """the Python transliteration used by the exploration equals the Coq dispatch_core on all (counter byte, index) pairs and parities"""
        cs = [0, 1, 255, 256, 2 ** 32 - 1, 2 ** 32 - 2]
        terms = []
        for c0 in cs:
            terms.append("(VL (map (fun p => let '(c', idx, kd) := dispatch_core (" + str(c0) + " + 256 * 7 * 0 + fst p) (snd p) in "
                         "VL [VZ c'; VZ (match idx with Some v => v | None => -1 end); VZ (match kd with KTx => 0 | KTail => 1 | KUser => 2 end)]) "
                         "(list_prod (map Z.of_nat (seq 0 4)) (map Z.of_nat (seq 0 256)))))")
        vals, log = eval_terms(self.pid + "core", self.corr_imports, terms, shard=10)
        bad = 0
        for c0, v in zip(cs, vals):
            if v is None:
                return ("dispatch_core transliteration", False, "Coq evaluation failed: " + log[-300:])
            k = 0
            for dc in range(4):
                for i in range(256):
                    c2, idx, kd = core(c0 + dc, i)
                    want = [c2, -1 if idx is None else idx, {"tx": 0, "tail": 1, "user": 2}[kd]]
                    if v[k] != want:
                        bad += 1
                    k += 1
        return ("dispatch_core transliteration agrees with Coq on 6144 (counter, index) pairs", bad == 0, f"{bad} differences")

    def explore(self):
        """bounded exploration (a search, not a proof): loop counter byte x multiset of up to three in-flight frames
        (index, enabled writes) of a registered group under deliveries in any order, losses and injections"""
        depth = 9 if self.tier == "quick" else 14
        init = (1, ())                        # counter 1 after priming, nothing in flight
        seen = {(init, 0)}
        frontier = [(init, 0)]                # (state, consecutive passes without running the program)
        worst, viol = 0, None
        for _ in range(depth):
            nxt = []
            for (c, fl), norun in frontier:
                succ = []
                if len(fl) < 3:
                    succ.append(((c, tuple(sorted(fl + ((0, 0),)))), norun))         # user space injects a sterile frame
                for k, (i, en) in enumerate(fl):
                    rest = fl[:k] + fl[k + 1:]
                    succ.append(((c, rest), norun))                                   # lost
                    c2, idx, kd = core(c, i)
                    c2 %= 256
                    if kd == "tail":
                        succ.append(((c2, tuple(sorted(rest + ((idx, 1),)))), 0))     # the program runs and enables the writes
                    elif kd == "tx":
                        if en and viol is None:
                            viol = f"frame with enabled write datagrams (index {i}) goes back to the bus without the program at counter {c}, in flight {fl}"
                        succ.append(((c2, tuple(sorted(rest + ((idx, en),)))), norun + 1))
                    else:
                        succ.append(((c, rest), norun + 1))                           # to user space
                for s in succ:
                    worst = max(worst, s[1])
                    if s not in seen:
                        seen.add(s)
                        nxt.append(s)
            frontier = nxt
        self.exploration = {"depth": depth, "states": len(seen), "max_consecutive_without_program": worst, "enabled_tx": viol}
        return (f"bounded exploration to depth {depth}: {len(seen)} states, at most {worst} consecutive frames without the program; "
                f"enabled frame sent on without the program: {viol}", True, "")

    def nontrivial(self, case, o):
        return not isinstance(o, Err)

    def rule(self):
        return ("frames of 31-70 random bytes: 60% group frames (EtherCAT ethertype, identification datagram) of a random group 0..63 with the frame index equal "
                "to / one below / one above / two below the loop counter byte, 0 or random, counters 0, 1, 2, 3, 254..257, 511, 2**32-2, 2**32-1, random, "
                "registered or not; foreign ethertypes, first datagram not a NOP, frames of 14-30 bytes, addresses that are no fast group (64, 65, 1000, 2**32-1, a group number plus a multiple of 64 / 256 / 65536 / 2**24 / 2**31, the addresses roundtrip_packet draws); all other counters random; plus (when bpf() is permitted) whole histories of 120-400 deliveries on the REAL dispatcher loaded into the running kernel (BPF_PROG_TEST_RUN, a counting stand-in as the group's program), loop counter starting at 0, 200, 250, 65500, 2**32-40 or random, losses 0 / 2% / 10%, 20% of the deliveries out of order: every step is compared with the dispatch model and the property is checked on the history itself")

    def distribution(self, cases, observed):
        d = {}
        for o in observed:
            if not isinstance(o, Err) and "action" not in o:
                d["kernel_histories"] = d.get("kernel_histories", 0) + 1
                d["kernel_deliveries_program_ran"] = d.get("kernel_deliveries_program_ran", 0) + o["ran"]
                d["kernel_frames_lost"] = d.get("kernel_frames_lost", 0) + o["lost"]
                d["kernel_frames_to_user"] = d.get("kernel_frames_to_user", 0) + o["to_user"]
            elif not isinstance(o, Err):
                k = str(o["action"][0])
                d[k] = d.get(k, 0) + 1
        d["exploration"] = getattr(self, "exploration", None)
        return d

    def describe(self, case):
        return {k: v for k, v in case.items() if not k.startswith("_")}


CHECK = C22
