(* C23 Processes sharing an interface coordinate the dispatcher safely.
   Model: Sys/StartStop.v - the start and stop sequences of
   ParallelEtherCat.run as atomic steps on the shared objects (lock directory with
   one file per participant, pinned program table, XDP attachment);
   Sys/FmmuLock.v - the shared map of logical address windows.  Validated on
   every run: the REAL run() / FMMULock in forked processes, gated at every
   operation on a shared object and interleaved by schedules. *)
From Verif Require Import Sys.StartStop Sys.StartStop_proofs Sys.FmmuLock Sys.FmmuLock_proofs.

(* TWO participants, EVERY interleaving of their steps and every outcome of the random ethertype draws (a closed finite
   set of 463 states, closure and invariants checked by computation inside the kernel): at most one participant installs
   the dispatcher at a time, and running participants have distinct ethertypes *)
Theorem C23_two_participants : forall sched,
  let s := run_sched [1; 2] (init 2) sched in p1 s = true /\ p3 s = true.
Proof. exact two_participants_safe. Qed.
Print Assumptions C23_two_participants.

(* THREE participants, every interleaving: the same, by a structural closure proof over the 25860 reachable states (the index
   used to find a successor in the set is not trusted: the state found is compared structurally) *)
Theorem C23_three_participants : forall sched,
  p1 (run_sched [1; 2] (init 3) sched) = true /\ p3 (run_sched [1; 2] (init 3) sched) = true.
Proof. exact three_participants_safe. Qed.
Print Assumptions C23_three_participants.

(* the address windows: in EVERY history of allocations and releases (any number of processes) no two processes hold
   the same window number, different numbers mean disjoint windows, and the 4096-byte blocks a process hands to its sync
   groups stay inside its window *)
Theorem C23_windows_distinct : forall es, finv (fold_left fstep es {| used := []; held := [] |}).
Proof. exact windows_distinct. Qed.
Theorem C23_windows_disjoint : forall a b, a <> b -> window_hi a <= window_lo b \/ window_hi b <= window_lo a.
Proof. exact windows_disjoint. Qed.
Theorem C23_groups_in_window : forall a k, 1 <= k < 1024 -> window_lo a <= group_addr a k /\ group_addr a k + 4096 <= window_hi a.
Proof. exact group_in_window. Qed.
Print Assumptions C23_windows_distinct.

(* NOT TRUE of the code (recorded finding): the dispatcher and its program table do not stay installed while a participant
   is running - a leaver that emptied the lock directory still detaches and unpins after a fresh starter installed its own *)
Theorem C23_refuted_stays_installed : let s := run_sched [1; 2] (init 2) race in
  p2 s = false /\ map (fun p => pc_code (p_pc p)) (procs s) = [15; 10] /\ att s = None /\ pin s = None.
Proof. exact p2_refuted. Qed.
(* repaired defect: the creator's unlocked write of the window map *)
Theorem C23_pinned_fmmu_refuted :
  let s := fold_left fstep_pinned [PCreate; PJoinAlloc 1 7; PCreatorWrite; PJoinAlloc 2 7] {| used := []; held := [] |} in
  map snd (held s) = [7; 7; 1].
Proof. exact pinned_refuted. Qed.

(* a removal that is not excluded from allocations (read and write of the map byte as two steps) hands one window to two processes *)
Theorem C23_split_release_refuted :
  let s := fold_left sstep [SAlloc 0 9; SRelRead 0; SAlloc 1 10; SRelWrite 0; SAlloc 2 10] {| s_f := {| used := []; held := [] |}; s_snap := [] |} in
  ~ NoDup (map snd (held (s_f s))).
Proof. exact split_release_refuted. Qed.
Print Assumptions C23_split_release_refuted.
