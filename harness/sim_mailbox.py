"""Mailbox + CoE/SDO server of a simulated SubDevice (ETG.1000.4 mailbox
handling via sync managers 0/1, ETG.1000.6 SDO services).  This is the
protocol-conformant terminal of property C16; it is deliberately strict:
wrong sizes, wrong toggles or malformed messages are answered with an abort
and recorded in `self.violations`."""
import struct

COE = 3


class SdoServer:
    def __init__(self, out_off, out_sz, in_off, in_sz, objects=None, delay=0, unrelated=0):
        self.out_off, self.out_sz, self.in_off, self.in_sz = out_off, out_sz, in_off, in_sz
        self.objects = dict(objects or {})      # (index, sub or "CA") -> bytes
        self.queue = []                         # pending read-mailbox messages (bytes incl. header)
        self.in_full = False
        self.delay = delay                      # status polls before a response becomes visible
        self.wait = 0
        self.unrelated = unrelated              # unrelated (non-CoE) mails to queue before the next first response
        self.violations = []
        self.counters = []                      # mailbox counters of received messages
        self.messages = []                      # lengths of all mailbox messages in both directions
        self.upload = None                      # (data, pos, toggle)
        self.download = None                    # (key, total, bytearray, toggle)
        self.toggles = []
        self.opened = False                     # the write mailbox was opened by a write to its first byte
        self.rx_payloads = []                   # CoE payloads received from the master
        self.tx_payloads = []                   # CoE payloads sent to the master

    # ---- SimTerminal hooks
    def after_write(self, sim, ado, n):
        if ado <= self.out_off < ado + n:
            self.opened = True
        if self.opened and ado <= self.out_off + self.out_sz - 1 < ado + n:
            self.opened = False
            raw = bytes(sim.mem[self.out_off:self.out_off + self.out_sz])
            length, addr, chan, typ = struct.unpack_from("<HHBB", raw, 0)
            self.counters.append(typ >> 4)
            if 6 + length > self.out_sz:
                self.violations.append(f"mailbox message of {length} bytes does not fit the {self.out_sz}-byte mailbox")
            self.messages.append(("out", 6 + length))
            self.handle(typ & 0xf, raw[6:6 + length])
            sim.mem[self.out_off:self.out_off + self.out_sz] = bytes(self.out_sz)
            self._fill(sim)

    def after_read(self, sim, ado, n):
        if self.in_full and ado <= self.in_off + self.in_sz - 1 < ado + n:
            self.in_full = False
            self._fill(sim)

    def refresh_status(self, sim):
        if self.wait > 0:
            self.wait -= 1
        self._fill(sim)
        sim.mem[0x805] &= ~8 & 0xff
        if self.in_full and self.wait == 0:
            sim.mem[0x80D] |= 8
        else:
            sim.mem[0x80D] &= ~8 & 0xff

    def _fill(self, sim):
        if not self.in_full and self.queue:
            msg = self.queue.pop(0)
            if len(msg) > self.in_sz:
                self.violations.append("server response larger than the read mailbox")
            sim.mem[self.in_off:self.in_off + self.in_sz] = msg + bytes(self.in_sz - len(msg))
            self.in_full = True
            self.wait = self.delay
            self.messages.append(("in", len(msg)))

    # ---- protocol
    def send(self, typ, payload):
        if typ == COE:
            self.tx_payloads.append(bytes(payload))
        self.queue.append(struct.pack("<HHBB", len(payload), 0, 0, typ | 0x10) + payload)

    def abort(self, index, sub, code, why):
        self.violations.append(why)
        self.send(COE, struct.pack("<HBHBI", 2 << 12, 0x80, index, sub, code))
        self.upload = self.download = None

    def handle(self, typ, p):
        if typ != COE:
            return
        self.rx_payloads.append(bytes(p))
        if len(p) < 3:
            self.violations.append("CoE message shorter than 3 bytes")
            return
        coe, cmd = struct.unpack_from("<HB", p, 0)
        if coe >> 12 != 2:
            self.violations.append(f"CoE service {coe >> 12} is not an SDO request")
            return
        ccs = cmd >> 5
        if ccs == 2:                                   # initiate upload
            if len(p) < 10:
                return self.abort(0, 0, 0x06070010, "upload request shorter than 10 bytes")
            index, sub = struct.unpack_from("<HB", p, 3)
            key = (index, "CA") if cmd & 0x10 else (index, sub)
            if key not in self.objects:
                return self.abort(index, sub, 0x06020000, f"object {key} does not exist")
            for _ in range(self.unrelated):
                self.send(2, b"unrelated mail")
            self.unrelated = 0
            data = self.objects[key]
            if 0 < len(data) <= 4 and not cmd & 0x10:
                self.send(COE, struct.pack("<HBHB4s", 3 << 12, 0x43 | ((4 - len(data)) << 2), index, sub, data))
                self.upload = None
            else:
                room = self.in_sz - 16
                self.send(COE, struct.pack("<HBHBI", 3 << 12, 0x41, index, sub, len(data)) + data[:room])
                self.upload = [data, min(room, len(data)), 0] if len(data) > room else None
                self.toggles = []
        elif ccs == 3:                                 # upload segment
            if self.upload is None:
                return self.abort(0, 0, 0x05040001, "segment requested but no upload in progress")
            data, pos, toggle = self.upload
            self.toggles.append(cmd & 0x10)
            if (cmd & 0x10) != toggle:
                return self.abort(0, 0, 0x05030000, f"upload toggle bit {cmd & 0x10:#x}, expected {toggle:#x}")
            room = self.in_sz - 9
            seg = data[pos:pos + room]
            last = pos + len(seg) >= len(data)
            c = toggle | (1 if last else 0)
            if len(seg) < 7:
                c |= (7 - len(seg)) << 1
                seg = seg + bytes(7 - len(seg))
            self.send(COE, struct.pack("<HB", 3 << 12, c) + seg)
            self.upload = None if last else [data, pos + room, toggle ^ 0x10]
        elif ccs == 1:                                 # initiate download
            if len(p) < 10:
                return self.abort(0, 0, 0x06070010, "download request shorter than 10 bytes")
            index, sub = struct.unpack_from("<HB", p, 3)
            key = (index, "CA") if cmd & 0x10 else (index, sub)
            if cmd & 2:                                # expedited
                n = 4 - ((cmd >> 2) & 3) if cmd & 1 else 4
                self.objects[key] = p[6:6 + n]
                self.send(COE, struct.pack("<HBHB4x", 3 << 12, 0x60, index, sub))
            else:
                total, = struct.unpack_from("<I", p, 6)
                got = p[10:]
                if not cmd & 1:
                    return self.abort(index, sub, 0x06070010, "normal download without size indication")
                if len(got) > total:
                    return self.abort(index, sub, 0x06070012, f"download announces {total} bytes but carries {len(got)}")
                if len(got) == total:
                    self.objects[key] = bytes(got)
                    self.download = None
                else:
                    self.download = [key, total, bytearray(got), 0, index, sub]
                    self.toggles = []
                self.send(COE, struct.pack("<HBHB4x", 3 << 12, 0x60, index, sub))
        elif ccs == 0:                                 # download segment
            if self.download is None:
                return self.abort(0, 0, 0x05040001, "download segment but no download in progress")
            key, total, buf, toggle, index, sub = self.download
            self.toggles.append(cmd & 0x10)
            if (cmd & 0x10) != toggle:
                return self.abort(index, sub, 0x05030000, f"download toggle bit {cmd & 0x10:#x}, expected {toggle:#x}")
            seg = p[3:]
            if len(seg) < 7:
                return self.abort(index, sub, 0x06070010, "download segment shorter than 7 data bytes")
            if len(seg) == 7:
                seg = seg[:7 - ((cmd >> 1) & 7)]
            buf += seg
            if cmd & 1:
                if len(buf) != total:
                    return self.abort(index, sub, 0x06070010, f"download complete with {len(buf)} of {total} bytes")
                self.objects[key] = bytes(buf)
                self.download = None
            else:
                self.download[3] = toggle ^ 0x10
            self.send(COE, struct.pack("<HB", 3 << 12, 0x20 | toggle) + bytes(7))
        else:
            self.abort(0, 0, 0x05040001, f"unknown SDO command {cmd:#x}")
