(* ebpfcat/ethercat.py: class Packet (append / assemble / full) and
   ebpfcat/ebpfcat.py: SterilePacket.append_writer / sterile.
   Constants come from Generated/Consts.v (read from the source every run). *)
From Verif Require Export Lib.Struct Generated.Consts.

Record dgram := { d_cmd : Z; d_data : list Z; d_wkc : Z; d_idx : Z; d_addr : list Z }.
Record packet := { p_data : list dgram; p_size : Z }.

Definition empty_packet : packet := {| p_data := []; p_size := Packet_PACKET_HEADER |}.

(* Packet.append: None = OverflowError; result = (start, stop) of the data *)
Definition append (p : packet) (d : dgram) : option (packet * (Z * Z)) :=
  let newsize := p_size p + zlen (d_data d) + Packet_DATAGRAM_HEADER + Packet_DATAGRAM_TAIL in
  if newsize >? Packet_MAXSIZE then None
  else if zlen (p_data p) >? Packet_append_maxcount then None
  else Some ({| p_data := p_data p ++ [d]; p_size := newsize |},
             (p_size p + Packet_DATAGRAM_HEADER, newsize - Packet_DATAGRAM_TAIL)).

Definition full (p : packet) : bool :=
  (p_size p >? Packet_MAXSIZE) || (zlen (p_data p) >? Packet_full_maxcount).

Fixpoint appends (p : packet) (ds : list dgram) : option (packet * list (Z * Z)) :=
  match ds with
  | [] => Some (p, [])
  | d :: tl =>
      match append p d with
      | None => None
      | Some (p', pos) =>
          match appends p' tl with
          | None => None
          | Some (p'', l) => Some (p'', pos :: l)
          end
      end
  end.

Definition u8 := FInt 1 false.
Definition u16 := FInt 2 false.
Definition i16 := FInt 2 true.
Definition i32 := FInt 4 true.

(* one iteration of the loop in assemble; `more` = (i < len(self.data)) *)
Definition enc_dgram (more : bool) (d : dgram) : option (list Z) :=
  let lenfield := Z.lor (zlen (d_data d)) (Z.shiftl (if more then 1 else 0) 15) in
  let hdr :=
    match d_addr d with
    | [pos; off] => pack [u8; u8; i16; u16; u16; u16]
                         [SInt (d_cmd d); SInt (d_idx d); SInt pos; SInt off; SInt lenfield; SInt 0]
    | [logical] => pack [u8; u8; i32; u16; u16]
                        [SInt (d_cmd d); SInt (d_idx d); SInt logical; SInt lenfield; SInt 0]
    | _ => None
    end in
  match hdr, pack [u16] [SInt (d_wkc d)] with
  | Some h, Some w => Some (h ++ d_data d ++ w)
  | _, _ => None
  end.

Fixpoint enc_dgrams (ds : list dgram) : option (list Z) :=
  match ds with
  | [] => Some []
  | d :: tl =>
      match enc_dgram (match tl with [] => false | _ => true end) d, enc_dgrams tl with
      | Some a, Some b => Some (a ++ b)
      | _, _ => None
      end
  end.

Definition pad_byte : Z := 51.  (* b"3" *)

Definition assemble (p : packet) (index ethertype : Z) : option (list Z) :=
  match pack [u16; u8; u8; i32; u16; u16; u16; u16]
             [SInt (Z.lor (p_size p - 2) 4096); SInt 0; SInt 0; SInt index; SInt 32770;
              SInt 0; SInt ethertype; SInt 0],
        enc_dgrams (p_data p) with
  | Some h, Some b =>
      Some (h ++ b ++ (if p_size p <? Packet_minpayload
                       then repeat pad_byte (Z.to_nat (Packet_minpayload - p_size p)) else []))
  | _, _ => None
  end.

(* ---- SterilePacket ---- *)
Record spacket := { sp : packet; on_the_fly : list (Z * Z * Z) (* start, stop, cmd *) }.

Definition s_append (s : spacket) (d : dgram) : option spacket :=
  option_map (fun r => {| sp := fst r; on_the_fly := on_the_fly s |}) (append (sp s) d).
Definition s_append_writer (s : spacket) (d : dgram) : option spacket :=
  match append (sp s) d with
  | None => None
  | Some (p', _) => Some {| sp := p'; on_the_fly := on_the_fly s ++ [(p_size (sp s), p_size p', d_cmd d)] |}
  end.

Fixpoint set_nth (n : nat) (v : Z) (l : list Z) : list Z :=
  match l, n with
  | [], _ => []
  | _ :: tl, O => v :: tl
  | x :: tl, S k => x :: set_nth k v tl
  end.

Definition sterile (s : spacket) (index ethertype : Z) : option (list Z) :=
  option_map (fun f => fold_left (fun acc e => set_nth (Z.to_nat (fst (fst e))) ECCmd_NOP acc)
                                 (on_the_fly s) f)
             (assemble (sp s) index ethertype).

(* ================= specification: an independent EtherCAT frame parser ===== *)
Record pdgram := { s_cmd : Z; s_idx : Z; s_addr : Z; s_len : Z; s_more : bool; s_irq : Z;
                   s_data : list Z; s_wkc : Z; s_datapos : Z }.

Definition splitn (n : nat) (b : list Z) : option (list Z * list Z) :=
  if (length b <? n)%nat then None else Some (firstn n b, skipn n b).

(* ETG.1000.4: datagram = cmd idx addr(4) len/flags(2) irq(2) data wkc(2);
   bit 15 of the length word = more datagrams follow *)
Fixpoint parse_dgrams (fuel : nat) (pos : Z) (b : list Z) : option (list pdgram) :=
  match fuel with
  | O => None
  | S k =>
      match b with
      | cmd :: idx :: a0 :: a1 :: a2 :: a3 :: l0 :: l1 :: i0 :: i1 :: tl =>
          let lf := le_val [l0; l1] in
          let len := lf mod 2048 in
          let more := Z.testbit lf 15 in
          match splitn (Z.to_nat len) tl with
          | None => None
          | Some (data, tl2) =>
              match tl2 with
              | w0 :: w1 :: rest =>
                  let d := {| s_cmd := cmd; s_idx := idx; s_addr := le_val [a0; a1; a2; a3];
                              s_len := len; s_more := more; s_irq := le_val [i0; i1];
                              s_data := data; s_wkc := le_val [w0; w1]; s_datapos := pos + 10 |} in
                  if more then option_map (cons d) (parse_dgrams k (pos + 12 + len) rest)
                  else match rest with [] => Some [d] | _ => None end
              | _ => None
              end
          end
      | _ => None
      end
  end.

(* frame header: 11-bit length, type 1 in bits 12..15; the datagrams must fill
   exactly `length` bytes; anything after that is Ethernet padding *)
Definition parse_frame (f : list Z) : option (Z * list pdgram * list Z) :=
  match f with
  | h0 :: h1 :: tl =>
      let hdr := le_val [h0; h1] in
      let len := hdr mod 2048 in
      if negb (hdr / 4096 =? 1) then None else
      match splitn (Z.to_nat len) tl with
      | None => None
      | Some (payload, padding) =>
          option_map (fun ds => (len, ds, padding)) (parse_dgrams (length payload) 2 payload)
      end
  | _ => None
  end.

(* the 32-bit address field a datagram's address arguments denote *)
Definition addr32 (d : dgram) : Z :=
  match d_addr d with
  | [pos; off] => pos mod 65536 + 65536 * off
  | [logical] => logical mod 4294967296
  | _ => 0
  end.
