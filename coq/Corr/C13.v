From Verif Require Import Lib.Base Ecat.Codec.

Definition v_sval (s : sval) : V := match s with SInt z => VZ z | SBytes l => VB l end.
Definition v_result (r : rt_result) : V :=
  match r with
  | RFields vs => VL [VZ 0; VL (map v_sval vs)]
  | RFieldsRaw vs raw => VL [VZ 1; VL (map v_sval vs); VB raw]
  | RRaw raw => VL [VZ 2; VB raw]
  end.

(* payload sent, and the value returned when the bus answers `resp` *)
Definition run (args : list arg) (d : rawdata) (resp : list Z) : V :=
  match rt_out args d with
  | None => VErr 1
  | Some out => VL [VB out; match rt_ret args d resp with None => VErr 1 | Some r => v_result r end]
  end.
