(* Terminal.map_fmmu: choice of the FMMU slot and its release.
   Python list semantics (reversed slice with clipping, list.index,
   negative-index assignment) are modelled explicitly. *)
From Verif Require Export Lib.Bytes.

Definition used := list (option Z).

(* Python: u[start::-1] *)
Definition rev_slice {A} (u : list A) (start : Z) : list A :=
  let n := zlen u in
  let s := if start <? 0 then start + n else Z.min start (n - 1) in
  if s <? 0 then [] else rev (ztake (s + 1) u).

(* Python: l.index(None); Python None = our None, ValueError = outer None *)
Fixpoint index_none (l : used) : option Z :=
  match l with
  | [] => None
  | None :: _ => Some 0
  | Some _ :: tl => option_map (Z.add 1) (index_none tl)
  end.

Definition start_of (write : bool) (n : Z) : Z := if write then Z.min 1 (n - 1) else n - 1.

(* index = start - self.fmmu_used[start::-1].index(None) *)
Definition slot_index (u : used) (write : bool) : option Z :=
  let start := start_of write (zlen u) in
  option_map (fun k => start - k) (index_none (rev_slice u start)).

Fixpoint set_at {A} (n : nat) (v : A) (l : list A) : list A :=
  match l, n with
  | [], _ => []
  | _ :: tl, O => v :: tl
  | x :: tl, S k => x :: set_at k v tl
  end.

(* Python: u[i] = v   (negative i counts from the end; None = IndexError) *)
Definition py_set {A} (u : list A) (i : Z) (v : A) : option (list A) :=
  let i' := if i <? 0 then i + zlen u else i in
  if (0 <=? i') && (i' <? zlen u) then Some (set_at (Z.to_nat i') v u) else None.

(* entering map_fmmu: the slot it takes (as Python index) and the new table *)
Definition map_enter (u : used) (write : bool) (logical : Z) : option (Z * used) :=
  match slot_index u write with
  | None => None
  | Some i => option_map (fun u' => (i, u')) (py_set u i (Some logical))
  end.
(* leaving it (finally: self.fmmu_used[index] = None) *)
Definition map_exit (u : used) (i : Z) : option used := py_set u i None.

(* ---- histories: overlapping map / unmap in any order ---- *)
Inductive op := Map (write : bool) (logical : Z) | Unmap (k : nat) (* k-th live mapping *).
Record st := { tbl : used; live : list (Z * Z) (* python index, logical *) }.

Fixpoint remove_nth {A} (k : nat) (l : list A) : list A :=
  match l, k with
  | [], _ => []
  | _ :: tl, O => tl
  | x :: tl, S k' => x :: remove_nth k' tl
  end.

Definition step (s : st) (o : op) : st :=
  match o with
  | Map w lg =>
      match map_enter (tbl s) w lg with
      | None => s                                   (* the mapping fails *)
      | Some (i, u') => {| tbl := u'; live := live s ++ [(i, lg)] |}
      end
  | Unmap k =>
      match nth_error (live s) k with
      | None => s
      | Some (i, _) =>
          match map_exit (tbl s) i with
          | None => s
          | Some u' => {| tbl := u'; live := remove_nth k (live s) |}
          end
      end
  end.

Definition init (n : nat) : st := {| tbl := repeat None n; live := [] |}.
