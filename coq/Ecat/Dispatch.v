(* The EtherCAT packet dispatcher (ebpfcat/ebpfcat.py EtherXDP.program) and the
   re-activation of a sterile frame (SterilePacket.activate, run by a fast sync
   group's program).  Frames are byte lists INCLUDING the 14-byte Ethernet
   header (the XDP view); the dispatcher's array map holds 64 32-bit counters. *)
From Verif Require Export Lib.Base Lib.ListX.

Definition byte_at (l : list Z) (k : nat) : Z := nth k l 0.
Definition set_byte (l : list Z) (k : nat) (v : Z) : list Z := set_at k (v mod 256) l.
Definition u16le (l : list Z) (k : nat) : Z := byte_at l k + 256 * byte_at l (S k).
Definition u32le (l : list Z) (k : nat) : Z := u16le l k + 65536 * u16le l (k + 2).
Definition set_u32le (l : list Z) (k : nat) (v : Z) : list Z :=
  set_byte (set_byte (set_byte (set_byte l k v) (k + 1) (v / 256)) (k + 2) (v / 65536)) (k + 3) (v / 16777216).

(* ---------------- the counter logic ---------------- *)
Inductive kind := KTx | KTail | KUser.

(* counter c (32 bit), frame index i (a byte): new counter, new frame index (if written), what happens *)
Definition dispatch_core (c i : Z) : Z * option Z * kind :=
  let b := c mod 256 in
  if i =? b then                                   (* "we lost a packet" *)
    let c' := (c + (1 + Z.land b 1)) mod 4294967296 in (c', Some (c' mod 256), KTail)
  else if (((i + 1) mod 256) =? b) || (i =? 0) then (* the normal case *)
    let c' := (c + 1) mod 4294967296 in
    if Z.odd b then (c', Some (c' mod 256), KTx)     (* the last one was active: straight back to the bus *)
    else (c', Some (c' mod 256), KTail)
  else (c, None, KUser).                            (* hand it to user space *)

(* ---------------- on frames ---------------- *)
Inductive action := ATx | APass | ARun (group : Z) | ADrop.

Definition ETHERTYPE_POS := 12%nat.
Definition CMD0 := 16%nat.
Definition INDEX0 := 17%nat.
Definition ADDR0 := 18%nat.
Definition DATA0 := 26%nat.
Definition MAX_PROGS := 64.

Definition to_user (f : list Z) : list Z :=        (* ethertype ("!H") := data0 ("H") *)
  set_byte (set_byte f ETHERTYPE_POS (byte_at f (S DATA0))) (S ETHERTYPE_POS) (byte_at f DATA0).

Definition is_group_frame (f : list Z) : bool :=
  (30 <? zlen f) && (byte_at f ETHERTYPE_POS =? 136) && (byte_at f (S ETHERTYPE_POS) =? 164) && (byte_at f CMD0 =? 0).

(* rate = 0: the random dropper is off.  `registered g` = the program table has an entry for group g *)
Definition dispatch (registered : Z -> bool) (f : list Z) (m : list Z) : list Z * list Z * action :=
  if negb (is_group_frame f) then (f, m, APass)
  else
    let g := u32le f ADDR0 in
    if MAX_PROGS <=? g then (to_user f, m, APass)
    else
      let k := Z.to_nat (4 * g) in
      let c := u32le m k in
      let '(c', idx, kd) := dispatch_core c (byte_at f INDEX0) in
      let m' := set_u32le m k c' in
      let f' := match idx with Some v => set_byte f INDEX0 v | None => f end in
      match kd with
      | KTx => (f', m', ATx)
      | KUser => (to_user f, m, APass)
      | KTail => if registered g then (f', m', ARun g) else (to_user f', m', APass)
      end.

(* ---------------- re-activation of a sterile frame (SterilePacket.activate) ---------------- *)
(* otf: the write datagrams: (start of the datagram, position of its working counter, command, expected counter) -
   positions in the frame without Ethernet header; the program adds 14 *)
Definition otf := (nat * nat * Z * Z)%type.

Fixpoint activate_all (l : list otf) (f : list Z) (errors : Z) : list Z * Z :=
  match l with
  | [] => (f, errors)
  | (start, wkc, cmd, expected) :: tl =>
      let f1 := set_byte f (start + 14) cmd in
      let errors' := if u16le f1 (wkc + 14) =? expected then errors else (errors + 1) mod 4294967296 in   (* 32-bit atomic add *)
      activate_all tl (set_byte (set_byte f1 (wkc + 14) 0) (wkc + 15) 0) errors'
  end.
(* wkc_errors = 0 means "output disabled": the frame is sent on as it is *)
Definition activate (l : list otf) (f : list Z) (wkc_errors : Z) : list Z * Z :=
  if wkc_errors =? 0 then (f, 0) else activate_all l f wkc_errors.

(* SterilePacket.sterile: the command bytes of the write datagrams are NOPs *)
Fixpoint sterile (l : list otf) (f : list Z) : list Z :=
  match l with [] => f | (start, _, _, _) :: tl => sterile tl (set_byte f (start + 14) 0) end.
