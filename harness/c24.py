"""C24: cancellation of SyncGroup / FastSyncGroup run() at every event-loop
iteration, and of ProcessSyncGroup.wait_for_process, against Sys/Cancel.v"""
import asyncio
import logging
import multiprocessing
import time

from .common import Check, Err, cbool, clist, cnat, cz
from .rig import Rig
from . import sim_kernel

logging.disable(logging.CRITICAL)


def _child(flag):
    while flag.value:
        time.sleep(0.002)


class C24(Check):
    pid = "C24"
    props_file = "Props/C24.v"
    corr_imports = ["Sys.Cancel", "Corr.C24"]
    technique = "Coq proof over every admissible prefix of the run coroutine (induction over the event list) + correspondence: the real run() coroutines cancelled at EVERY event-loop iteration of start-up and the first cycles on the simulated bus"
    trusted = ["asyncio cancellation semantics (CancelledError delivered at the awaited point, finally blocks and context managers run)",
               "harness/sim_bus.py, harness/sim_kernel.py (program table and program loading stand-ins)",
               "the event-loop iteration granularity covers every await point (a superset: several iterations fall inside one await)"]
    assumptions = ["a single cancellation; the clean-up awaits complete", "process-based groups: ProcessSyncGroup.wait_for_process is exercised with a stand-in child process, and the cyclic loop of the subprocess (SyncGroupBase.run with the running flag) as a task of the harness's own event loop"]

    # case: {"kind": "slow"|"fast"|"proc", "terms": [...], "n": iterations before cancel}
    def configs(self):
        T = lambda pos, fm, rw, al=2, fmmus=3: dict(pos=pos, **{"in": 8, "out": 4}, fmmu=fm, rw=rw, al=al, fmmus=fmmus)
        return [
            ("slow", [T(1001, True, True), T(1002, False, True)]),
            # terminals with exactly two FMMUs, both taken (the input mapping does not get the slot its search starts at)
            ("slow", [T(1001, True, True, fmmus=2), T(1002, True, True, 1, fmmus=2)]),
            ("slow", [T(1001, True, True, 1), T(1002, True, False, 4), T(1003, False, True, 8)]),
            ("fast", [T(1001, True, True), T(1002, False, True)]),
            ("fast", [T(1001, True, False), T(1002, True, True, 1)]),
        ]

    def gen_cases(self):
        out = []
        step = 1 if self.tier == "thorough" else 2
        for k, (kind, terms) in enumerate(self.configs()):
            for n in range(0, 130 if self.tier == "quick" else 260, step if k else 1):
                out.append({"kind": kind, "terms": terms, "n": n})
        # the group had been run and cancelled before (restart of the same group object): whatever the first run left behind in the
        # terminal objects must not spoil the clean-up of the second
        for k in (0, 3):
            kind, terms = self.configs()[k]
            for n in range(0, 130 if self.tier == "quick" else 260, 1 if self.tier == "thorough" or k == 0 else 2):
                out.append({"kind": kind, "terms": terms, "n": n, "prior": 40 + 7 * (n % 9)})
        for n in [1, 2, 3, 5, 8]:   # n = 0 would cancel the task before its coroutine ever runs (no await point reached)
            out.append({"kind": "proc", "terms": [], "n": n})
        # the other half of a process-based group: the cyclic loop its subprocess runs sees the parent's stop request (the
        # shared running flag cleared by wait_for_process) - also while the cyclic frames are being lost
        kind, terms = self.configs()[0]
        for n in ([3, 20, 60, 75, 90, 110, 128] if self.tier == "quick" else list(range(0, 200, 6))):
            for lose in (False, True):
                out.append({"kind": "procloop", "terms": terms, "n": n, "lose": lose})
        return out

    def run_impl(self, case):
        o = self.run_proc(case) if case["kind"] == "proc" else self.run_group(case)      # run_group also serves "procloop"
        case["_o"] = o
        return o

    def run_proc(self, case):
        from ebpfcat.ebpfcat import ProcessSyncGroup
        ctx = multiprocessing.get_context("fork")

        class Fake:
            pass
        fake = Fake()
        fake.runningValue = ctx.Value("B")
        fake.runningValue.value = True
        fake.process = ctx.Process(target=_child, args=(fake.runningValue,))
        fake.process.start()

        async def go():
            task = asyncio.ensure_future(ProcessSyncGroup.wait_for_process(fake))
            for _ in range(case["n"]):
                await asyncio.sleep(0)
            task.cancel()
            try:
                await asyncio.wait_for(task, 60)
                out = "returned"
            except asyncio.CancelledError:
                out = "cancelled"
            except asyncio.TimeoutError:
                out = "timeout"
            except Exception as e:
                out = f"{type(e).__name__}: {e}"
            return out
        try:
            out = asyncio.run(go())
            fake.process.join(20)
            stopped = not fake.process.is_alive()
        finally:
            fake.runningValue.value = False
            if fake.process.is_alive():
                fake.process.join(1)
                if fake.process.is_alive():
                    fake.process.kill()
        return {"outcome": out, "stopped": stopped}

    def run_group(self, case):
        from ebpfcat.ebpfcat import Device, SyncGroup, FastSyncGroup, TerminalVar, FastEtherCat

        class Dev(Device):
            a = TerminalVar()
            b = TerminalVar()

            def __init__(self, t, rw):
                self.a = t.in_word
                if rw:
                    self.b = t.out_word

            def program(self):
                pass

        async def go(kernel):
            fast = case["kind"] == "fast"
            rig = Rig(case["terms"], ec_class=FastEtherCat if fast else None)
            rig.connect()
            devs = [Dev(t, s["rw"]) for t, s in zip(rig.terms, case["terms"])]
            flag = [True]
            if fast:
                rig.ec.programs = kernel.create_map(type("T", (), {"name": "PROG_ARRAY"}), 4, 4, 64)
                sg = FastSyncGroup(rig.ec, devs)
            elif case["kind"] == "procloop":
                class StoppableGroup(SyncGroup):
                    # ProcessSyncGroup.running: a flag shared with the parent, which clears it when its task is cancelled
                    running = property(lambda self: flag[0])
                sg = StoppableGroup(rig.ec, devs)
            else:
                sg = SyncGroup(rig.ec, devs)
            sg.cycletime = 0
            nlog = len(kernel.log)
            # record requests when they are SUBMITTED (a request submitted before the cancellation
            # is still transmitted afterwards)
            evlog = []
            stations = {s["pos"]: i for i, s in enumerate(case["terms"])}
            real_rt, real_rp = rig.ec.roundtrip, rig.ec.roundtrip_packet
            from ebpfcat.ethercat import ECCmd

            def rec_rt(cmd, pos, offset, *args, **kw):
                if cmd is ECCmd.FPWR and pos in stations:
                    if offset == 0x120:
                        evlog.append(("al", stations[pos], args[1]))
                    elif 0x600 <= offset < 0x700 and offset % 16 == 0:
                        evlog.append(("fmmu", stations[pos], (offset - 0x600) // 16))
                return real_rt(cmd, pos, offset, *args, **kw)

            def rec_rp(packet, index=None):
                if index is not None:
                    evlog.append(("frame",))
                return real_rp(packet, index)
            rig.ec.roundtrip, rig.ec.roundtrip_packet = rec_rt, rec_rp
            if case.get("prior"):
                task = sg.start()
                for _ in range(case["prior"]):
                    await asyncio.sleep(0)
                task.cancel()
                try:
                    await asyncio.wait_for(task, 60)
                except BaseException:      # noqa
                    pass
                del evlog[:]
                nlog = len(kernel.log)
                if fast:
                    # a fast group object cannot be started twice (its program is generated once): a new group over the same terminals
                    sg = FastSyncGroup(rig.ec, [Dev(t, s["rw"]) for t, s in zip(rig.terms, case["terms"])])
                    sg.cycletime = 0
            task = sg.start()
            for _ in range(case["n"]):
                await asyncio.sleep(0)
                if task.done():
                    break
            nev = len(evlog)
            klog = len(kernel.log)
            if case["kind"] == "procloop":
                flag[0] = False
                if case["lose"]:
                    def lossy(packet, index=None):
                        if index is None:
                            return real_rp(packet, index)
                        evlog.append(("frame",))
                        return asyncio.get_event_loop().create_future()       # this frame never comes back
                    rig.ec.roundtrip_packet = lossy
            else:
                task.cancel()
            try:
                await asyncio.wait_for(task, 3 if case["kind"] == "procloop" else 60)
                out = "returned"
            except asyncio.CancelledError:
                out = "cancelled"
            except asyncio.TimeoutError:
                out = "timeout"
            except Exception as e:
                out = f"{type(e).__name__}: {e}"
            await rig.shutdown()
            pre, post = evlog[:nev], evlog[nev:]
            reg_pre = [e for e in kernel.log[nlog:klog] if e[0] in ("update", "delete")]
            reg_post = [e for e in kernel.log[klog:] if e[0] in ("update", "delete")]
            return {"outcome": out, "pre": pre, "post": post,
                    "reg_pre": [e[0] for e in reg_pre], "reg_post": [e[0] for e in reg_post],
                    "fmmu_used": [list(t.fmmu_used) for t in rig.terms],
                    "sync_groups": len(getattr(rig.ec, "sync_groups", {}))}
        with sim_kernel.installed() as kernel:
            return asyncio.run(go(kernel))

    # ---- model
    def pre_events(self, case, o):
        """the bus-level events before the cancellation, as the model's alphabet; the fast
        group's registration happens before its first frame"""
        evs = []
        if "update" in o["reg_pre"]:
            evs.append("Reg")
        for e in o["pre"]:
            if e[0] == "frame":
                evs.append("Frame")
            elif e[0] == "al":
                evs.append(f"AlWrite {cnat(e[1])} {cz(e[2])}")
            else:
                evs.append(f"FmmuSet {cnat(e[1])} {cnat(e[2])}")
        return evs

    def model_term(self, case):
        o = case["_o"]
        if case["kind"] in ("proc", "procloop"):
            return "(VZ 0)"
        rws = clist([cbool(s["rw"]) for s in case["terms"]])
        return f"(run {cbool(case['kind'] == 'fast')} {rws} {clist(self.pre_events(case, o))})"

    def model_value(self, case, o):
        if case["kind"] in ("proc", "procloop"):
            return 0
        post = sorted([1, e[1], e[2]] for e in o["post"] if e[0] == "al")
        vals = post + ([[4]] if "delete" in o["reg_post"] else [])
        return vals

    def holds(self, case, o):
        if case["kind"] == "proc":
            if o["outcome"] != "cancelled":
                return f"wait_for_process ended with {o['outcome']} instead of being cancelled"
            if not o["stopped"]:
                return "the subprocess was not stopped"
            return True
        if case["kind"] == "procloop":
            if o["outcome"] != "returned":
                return (f"the cyclic loop of a process-based group did not end within 3 s after the stop request (running flag cleared after {case['n']} "
                        f"iterations{', cyclic frames lost from then on' if case['lose'] else ''}): {o['outcome']} - the subprocess is never stopped")
        elif o["outcome"] != "cancelled":
            return f"cancelled after {case['n']} loop iterations: the task ended with {o['outcome']}, not as cancelled"
        for t, s in enumerate(case["terms"]):
            al = [e[2] for e in o["pre"] + o["post"] if e[0] == "al" and e[1] == t]
            if 8 in al:
                last = len(al) - 1 - al[::-1].index(8)
                if 4 not in al[last + 1:]:
                    return f"terminal {s['pos']} was asked to go OPERATIONAL and never asked back to SAFE-OPERATIONAL (AL control writes {al})"
        for t, fu in zip(case["terms"], o["fmmu_used"]):
            if any(x is not None for x in fu):
                return f"FMMU table of terminal {t['pos']} not freed: {fu}"
        if o["sync_groups"]:
            return "the sync group is still registered"
        if o["reg_pre"].count("update") + o["reg_post"].count("update") != o["reg_pre"].count("delete") + o["reg_post"].count("delete"):
            return "the kernel program was not unregistered"
        return True

    def nontrivial(self, case, o):
        return case["kind"] not in ("proc",) and any(e[0] == "al" and e[2] == 8 for e in o["pre"])

    def search_cases(self):
        out = []
        for kind, terms in self.configs():
            for n in range(0, 200):
                out.append({"kind": kind, "terms": terms, "n": n})
        return out

    def rule(self):
        return ("slow and fast sync groups over 2-3 simulated terminals (FMMU / direct, read-write / read-only, different start states, 3 or exactly 2 FMMUs) cancelled after n = 0..129 "
                "event-loop iterations (every iteration for the first configuration, every second otherwise; thorough: every one up to 259) - this covers "
                "every await of start-up and the first cycles; wait_for_process cancelled after 0..8 iterations; the cyclic loop a process-based group's "
                "the first slow and the first fast configuration also as a RESTART (the same slow group object / a new fast group over the same terminals had run for 40-96 iterations and been cancelled before); "
                "subprocess runs, with the shared running flag cleared after n iterations, with and without all cyclic frames lost from then on; non-trivial = OPERATIONAL had been requested")

    def distribution(self, cases, observed):
        d = {"slow": 0, "fast": 0, "proc": 0, "procloop": 0, "cancel_after_op": 0, "cancel_in_mapping": 0}
        for c, o in zip(cases, observed):
            d[c["kind"]] += 1
            if c["kind"] != "proc":
                d["cancel_after_op"] += any(e[0] == "al" and e[2] == 8 for e in o["pre"])
                d["cancel_in_mapping"] += any(e[0] == "fmmu" for e in o["pre"]) and not any(e[0] == "frame" for e in o["pre"][-1:])
        return d

    def describe(self, case):
        return {"kind": case["kind"], "terms": case["terms"], "n": case["n"], **({"lose": case["lose"]} if "lose" in case else {}),
                **({"prior": case["prior"]} if "prior" in case else {})}


CHECK = C24
