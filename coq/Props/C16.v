From Verif Require Import Ecat.Sdo.
