"""C28: serial.Serial.update against Dev/Serial.v, with real pipes, real
TerminalVar/PacketVar descriptors and a Python twin of the EL6002 handshake."""
import os

from .common import Check, Err, cbool, clist, czlist


class FakeSG:
    def __init__(self, terminal, pdo):
        self.current_data = bytearray(64)
        self.pdo_assign = {terminal: pdo}


class Twin:
    """the terminal side (Dev/Serial.v: react)"""
    def __init__(self):
        self.phase, self.tacc, self.rreq, self.iacc, self.str = 0, False, False, False, b""

    def react(self, treq, racc, ireq, ostr, o):
        acc = ann = None
        if self.phase == 0:
            if o["init"] and ireq:
                self.phase, self.iacc = 1, True
        elif self.phase == 1:
            if o["init"] and not ireq:
                self.phase, self.iacc = 2, False
        else:
            pending = treq != self.tacc
            free = self.rreq == racc
            if pending and o["accept"]:
                acc = ostr
                self.tacc = treq
            if free and o["announce"] is not None:
                ann = o["announce"]
                self.rreq = not self.rreq
                self.str = ann
        return acc, ann


def payload(rng, n):
    """binary data: a third of the chunks end or begin with NUL bytes, some are all NUL or all 0xff"""
    b = bytearray(rng.randrange(256) for _ in range(n))
    r = rng.random()
    if r < 0.2:
        k = rng.randint(1, min(3, n))
        b[n - k:] = bytes(k)
    elif r < 0.28:
        b[:1] = b"\0"
    elif r < 0.33:
        b = bytearray(n)
    elif r < 0.36:
        b = bytearray(b"\xff" * n)
    return bytes(b)


class C28(Check):
    pid = "C28"
    props_file = "Props/C28.v"
    corr_imports = ["Dev.Serial", "Corr.C28"]
    technique = "Coq invariant proof over all histories of application writes and handshake timings; channel independence proved on the layout REGENERATED from terminals.py (Generated/SerialLayout.v) + differential correspondence with serial.Serial (real pipes, the real EL6002 terminal class of terminals.py with BOTH channels in use in one process image)"
    trusted = ["the EL6002 handshake as modelled in Dev/Serial.v `react` (terminal never toggles receive_request before the previous chunk was acknowledged, "
               "does not hand over data before initialisation completed)", "os.pipe2/os.read semantics for non-blocking pipes"]
    assumptions = ["every cyclic frame comes back (frame loss is C22/C30 territory)", "the application never has more than a pipe buffer of unsent data"]

    # case: list of events ("write", bytes) | ("cycle", {"init": b, "accept": b, "announce": bytes|None})
    def corpus(self):
        cyc = lambda i=True, a=True, n=None: ("cycle", {"init": i, "accept": a, "announce": n})
        return [
            [cyc(), cyc(), cyc(), ("write", b"hello"), cyc(), cyc(a=False), cyc(a=False, n=b"abc"), cyc(a=False), cyc(), cyc(n=b"defg"), cyc(), cyc()],
            [cyc(), cyc(), cyc(), ("write", bytes(range(60))), cyc(), cyc(), cyc(), cyc(), cyc(), cyc(), cyc()],
            [cyc(i=False), cyc(), cyc(i=False), cyc(), cyc(), ("write", b"x"), cyc(n=b"y"), cyc(n=b"z"), cyc(n=b"w"), cyc()],
        ]

    def gen_cases(self):
        rng = self.rng
        out = []
        for _ in range(120 if self.tier == "quick" else 3000):
            evs = []
            slow = rng.random() < 0.5
            for k in range(rng.randint(4, 30)):
                if rng.random() < 0.25:
                    evs.append(("write", payload(rng, rng.choice([1, 3, 22, 23, 40, 5]))))
                else:
                    ann = payload(rng, rng.randint(1, 22)) if rng.random() < 0.35 else None
                    evs.append(("cycle", {"init": rng.random() < 0.8, "accept": rng.random() < (0.3 if slow else 0.8), "announce": ann}))
            out.append(evs)
        return out

    def companion(self, case):
        """the traffic of the OTHER channel of the same EL6002 while the case runs: derived from the case, so that it replays"""
        import random
        import zlib
        rng = random.Random(zlib.crc32(repr(self.describe(case)).encode()))
        evs = []
        for _ in range(3 * len(case) + 6):
            if rng.random() < 0.3:
                evs.append(("write", payload(rng, rng.choice([1, 3, 22, 23, 40, 5]))))
            else:
                ann = payload(rng, rng.randint(1, 22)) if rng.random() < 0.35 else None
                evs.append(("cycle", {"init": rng.random() < 0.9, "accept": rng.random() < 0.6, "announce": ann}))
        return evs, rng.random() < 0.5

    def run_impl(self, case):
        """the case runs on one channel of a REAL EL6002 terminal object (terminals.py layout), the companion traffic on the other one,
        both devices in one (fake) sync group image, updated every cycle like SyncGroup.update_devices does"""
        from ebpfcat.ethercat import SyncManager
        from ebpfcat.serial import Serial
        from ebpfcat.terminals import EL6002

        term = EL6002.__new__(EL6002)
        comp, swap = self.companion(case)
        IN, OUT = 2, 60
        sg = FakeSG(term, {SyncManager.IN: IN, SyncManager.OUT: OUT})
        sg.current_data = bytearray(128)
        data = sg.current_data

        class Side:
            def __init__(self, channel, off):
                self.dev = Serial(channel)
                self.dev.sync_group = sg
                self.i, self.o = IN + off, OUT + off
                self.twin = Twin()
                self.trace, self.accepted, self.delivered, self.pipe = [], [], [], b""

            def write(self, b):
                os.write(self.dev.out_write, b)
                self.pipe += b

            def inputs(self):
                twin, i = self.twin, self.i
                data[i] = (1 if twin.tacc else 0) | (2 if twin.rreq else 0) | (4 if twin.iacc else 0) | 0xa0
                data[i + 1] = len(twin.str)
                data[i + 2:i + 24] = twin.str + bytes(22 - len(twin.str))

            def update(self):
                dev = self.dev
                dev.update()
                try:
                    got = os.read(dev.in_read, 4096)
                except BlockingIOError:
                    got = b""
                if got and got != b"A" or (got == b"A" and getattr(dev, "_seenA", False)):
                    self.delivered.append(got)
                if got == b"A":
                    dev._seenA = True

            def bus(self, oracle):
                # what the terminal sees of this channel once BOTH devices have been updated
                o = self.o
                treq, racc, ireq = bool(data[o] & 1), bool(data[o] & 2), bool(data[o] & 4)
                ostr = bytes(data[o + 2:o + 2 + data[o + 1]])
                acc, ann = self.twin.react(treq, racc, ireq, ostr, oracle)
                if acc is not None:
                    self.accepted.append(acc)

            def record(self):
                dev, o, twin = self.dev, self.o, self.twin
                taken = b"".join(self.accepted) + (dev.current_transmit or b"" if (dev.current_transmit is not None and (bool(data[o] & 1) != twin.tacc)) else b"")
                d = [bool(dev.connected), bool(getattr(dev, "last_transmit_accept", False)), bool(getattr(dev, "last_receive_request", False)),
                     bool(dev.last_receive_accept), bool(dev.last_transmit_request),
                     None if dev.current_transmit is None else bytes(bytearray(dev.current_transmit)),      # a COPY: the harness must not keep the device's own objects alive
                     bool(data[o] & 1), bool(data[o] & 2), bool(data[o] & 4), bytes(data[o + 2:o + 2 + data[o + 1]])]
                t = [twin.phase, twin.tacc, twin.rreq, twin.iacc, twin.str]
                self.trace.append([d, t, self.pipe[len(taken):], list(self.accepted), list(self.delivered)])

            def close(self):
                for fd in (self.dev.in_read, self.dev.in_write, self.dev.out_read, self.dev.out_write):
                    try:
                        os.close(fd)
                    except OSError:
                        pass
        ch = [(term.channel1, 0), (term.channel2, 24)]
        if swap:
            ch.reverse()
        main, other = Side(*ch[0]), Side(*ch[1])
        order = sorted([main, other], key=lambda x: x.o)      # the devices are updated in the order of the group
        k, cevs = 0, []
        try:
            for ev in case:
                if ev[0] == "write":
                    main.write(ev[1])
                else:
                    while k < len(comp) and comp[k][0] == "write":
                        other.write(comp[k][1])
                        other.record()
                        cevs.append(comp[k])
                        k += 1
                    oc = comp[k] if k < len(comp) else ("cycle", {"init": True, "accept": True, "announce": None})
                    k += 1
                    cevs.append(oc)
                    main.inputs()
                    other.inputs()
                    for x in order:
                        x.update()
                    main.bus(ev[1])
                    other.bus(oc[1])
                    other.record()
                main.record()
            self.others = getattr(self, "others", {})
            self.others[id(case)] = (cevs, other.trace, "channel1" if swap else "channel2")
            return main.trace
        finally:
            main.close()
            other.close()

    def extra_checks(self):
        """the translator of the channel layout (harness/gen_consts.py -> Generated/SerialLayout.v, about which the independence theorems
        are proved) against the live descriptor objects of terminals.py"""
        import struct
        from . import gen_consts
        import ebpfcat.terminals as terminals
        bad, n = [], 0
        if not gen_consts.LAYOUT:
            return [("serial-layout-translation", False, "the layout was not regenerated in this run")]
        for tname, lay in gen_consts.LAYOUT.items():
            cls = getattr(terminals, tname)
            term = cls.__new__(cls)
            for cname, sm3, sm2 in lay["chans"]:
                ch = getattr(term, cname)
                for name, sm, pos, bit, width in lay["descs"]:
                    n += 1
                    pv = getattr(ch, name)
                    off = sm3 if sm == 3 else sm2
                    live = (pv.sm.value, pv.position, pv.size if isinstance(pv.size, int) else -1,
                            1 if isinstance(pv.size, int) else struct.calcsize("<" + pv.size))
                    if live != (sm, pos + off, bit, width):
                        bad.append(f"{tname}.{cname}.{name}: live object (sm, position, bit, width) = {live}, generated {(sm, pos + off, bit, width)}")
            # nothing the translator does not know about
            live_names = {k for c in cls.Channel.__mro__ for k, v in c.__dict__.items() if type(v).__name__ == "PacketDesc"}
            if live_names != {d[0] for d in lay["descs"]}:
                bad.append(f"{tname}.Channel: live descriptors {sorted(live_names)}, generated {sorted(d[0] for d in lay['descs'])}")
            live_ch = {k for k, v in cls.__dict__.items() if type(v).__name__ == "StructDesc"}
            if live_ch != {c[0] for c in lay["chans"]}:
                bad.append(f"{tname}: live channels {sorted(live_ch)}, generated {sorted(c[0] for c in lay['chans'])}")
        return [("serial-layout-translation", not bad, f"{n} process variables of EL6002 / EL6022 channels: generated layout equals the live descriptor objects; {bad[:2]}")]

    def model_term(self, case):
        evs = []
        for ev in case:
            if ev[0] == "write":
                evs.append(f"EWrite {czlist(ev[1])}")
            else:
                o = ev[1]
                ann = "None" if o["announce"] is None else f"(Some {czlist(o['announce'])})"
                evs.append(f"ECycle {{| or_init := {cbool(o['init'])}; or_accept := {cbool(o['accept'])}; or_announce := {ann} |}}")
        return f"(run {clist(evs)})"

    def holds(self, case, o):
        if isinstance(o, Err):
            return o.what
        h = self.holds_one(case, o)
        other = getattr(self, "others", {}).get(id(case))
        if h is True and other is not None and other[1]:
            cevs, trace, which = other
            h = self.holds_one(cevs, trace)
            if h is not True:
                return f"on the other channel ({which}) of the same terminal, used at the same time: {h}"
        return h

    def holds_one(self, case, o):
        written = b"".join(ev[1] for ev in case if ev[0] == "write")
        final = o[-1]
        d, t, pipe, accepted, delivered = final
        acc = b"".join(accepted)
        if not written.startswith(acc):
            return f"terminal was presented {acc.hex()} which is not a prefix of what the application wrote ({written.hex()})"
        for c in accepted:
            if len(c) > 22 or not c:
                return f"chunk of {len(c)} bytes presented"
        # announced chunks, in order (those the twin really handed over)
        ann, twin = [], Twin()
        # replay the twin's decisions from the trace: a chunk was announced whenever the terminal's string/rreq changed
        prev_rreq = False
        for ev, st in zip(case, o):
            if ev[0] == "cycle" and st[1][2] != prev_rreq:
                ann.append(st[1][4])
                prev_rreq = st[1][2]
        if delivered != ann[:len(delivered)] or len(ann) - len(delivered) > 1:
            return f"application received {[x.hex() for x in delivered]}, terminal announced {[x.hex() for x in ann]}"
        # one toggle of transmit_request per presented chunk, kept until acknowledged
        toggles, prev = 0, False
        prev_pending = None
        for st in o:
            treq, ostr, tacc = st[0][6], st[0][9], st[1][1]
            if treq != prev:
                toggles += 1
                prev = treq
            # while pending (as the terminal sees it) request and data must not change
            if prev_pending is not None and prev_pending[0] and (treq, ostr) != prev_pending[1:]:
                return "transmit request or data changed before the terminal acknowledged the chunk"
            prev_pending = (treq != tacc, treq, ostr)
        inflight = 1 if (final[0][6] != final[1][1]) else 0
        if toggles != len(accepted) + inflight:
            return f"{toggles} toggles of transmit_request for {len(accepted)} accepted (+{inflight} pending) chunks"
        rt, prev = 0, False
        for st in o:
            if st[0][7] != prev:
                rt += 1
                prev = st[0][7]
        if rt != len(delivered):
            return f"{rt} toggles of receive_accept for {len(delivered)} delivered chunks"
        return True

    def nontrivial(self, case, o):
        return not isinstance(o, Err) and len(o[-1][3]) >= 1 and len(o[-1][4]) >= 1

    def search_cases(self):
        cyc = lambda i=True, a=True, n=None: ("cycle", {"init": i, "accept": a, "announce": n})
        out = []
        for delay in range(0, 4):
            for k in range(0, 4):
                evs = [cyc(), cyc(), cyc(), ("write", b"hello world")]
                evs += [cyc(a=False)] * k + [cyc(a=False, n=b"abc")] + [cyc(a=False)] * delay + [cyc(), cyc(n=b"defg"), cyc(), cyc()]
                out.append(evs)
        return out

    def rule(self):
        return ("histories of 4-30 events: application writes of 1-40 bytes and cycles whose oracle decides init reaction, transmit accept (slow terminals accept "
                "with probability 0.3) and announcement of received chunks of 0-22 bytes (binary data, a third with leading / trailing NUL bytes, all NUL or all 0xff); both directions active at once; the case runs on one channel of an EL6002 (either one), derived random traffic on the other channel at the same time, and both channels are checked; non-trivial = at least one chunk accepted and one delivered")

    def distribution(self, cases, observed):
        d = {"cycles": 0, "writes": 0, "accepted": 0, "delivered": 0}
        for c, o in zip(cases, observed):
            d["cycles"] += sum(e[0] == "cycle" for e in c)
            d["writes"] += sum(e[0] == "write" for e in c)
            if not isinstance(o, Err):
                d["accepted"] += len(o[-1][3])
                d["delivered"] += len(o[-1][4])
        return d

    def describe(self, case):
        return [["write", e[1].hex()] if e[0] == "write" else
                ["cycle", {"init": e[1]["init"], "accept": e[1]["accept"], "announce": None if e[1]["announce"] is None else e[1]["announce"].hex()}]
                for e in case]

    def case_from_json(self, w):
        return [("write", bytes.fromhex(e[1])) if e[0] == "write" else
                ("cycle", {"init": e[1]["init"], "accept": e[1]["accept"], "announce": None if e[1]["announce"] is None else bytes.fromhex(e[1]["announce"])})
                for e in w]


CHECK = C28
