From Verif Require Import Ecat.Sdo.

Lemma zslice_length l a b : (a <= b)%nat -> (b <= length l)%nat -> length (zslice l a b) = (b - a)%nat.
Proof. intros. unfold zslice. rewrite firstn_length, skipn_length. lia. Qed.

Lemma firstn_zslice l a b : (a <= b)%nat -> firstn a l ++ zslice l a b = firstn b l.
Proof.
  intros H. unfold zslice. rewrite firstn_skipn_comm. replace (a + (b - a))%nat with b by lia.
  replace (firstn a l) with (firstn a (firstn b l)) by (rewrite firstn_firstn; f_equal; lia).
  apply firstn_skipn.
Qed.

Lemma pad7_length s : length (pad7 s) = Nat.max 7 (length s).
Proof. unfold pad7. rewrite app_length, repeat_length. lia. Qed.
Lemma pad7_firstn s : firstn (length s) (pad7 s) = s.
Proof. unfold pad7. apply firstn_app_exact. Qed.
Lemma pad7_long s : (7 <= length s)%nat -> pad7 s = s.
Proof. intros. unfold pad7. replace (7 - length s)%nat with O by lia. apply app_nil_r. Qed.

Definition is_toggle (t : Z) : Prop := t = 0 \/ t = 16.
Definition flip (t : Z) : Z := if t =? 0 then 16 else 0.
Lemma flip_toggle t : is_toggle t -> is_toggle (flip t).
Proof. intros [->| ->]; [right|left]; reflexivity. Qed.

(* decoding the segment command byte *)
Lemma seg_cmd_bits toggle last n : is_toggle toggle ->
  let cmd := seg_cmd toggle last n in
  (cmd / 16) mod 2 * 16 = toggle /\ Z.testbit cmd 0 = last /\ cmd / 32 = 0 /\
  (cmd / 2) mod 8 = (if (n <? 7)%nat then Z.of_nat (7 - n) else 0).
Proof.
  intros Ht cmd. subst cmd. unfold seg_cmd.
  assert (K : 0 <= (if (n <? 7)%nat then 2 * Z.of_nat (7 - n) else 0) <= 14 /\
              (if (n <? 7)%nat then 2 * Z.of_nat (7 - n) else 0) = 2 * (if (n <? 7)%nat then Z.of_nat (7 - n) else 0))
    by (destruct (Nat.ltb_spec n 7); lia).
  destruct K as [K1 K2].
  set (k := if (n <? 7)%nat then Z.of_nat (7 - n) else 0) in *.
  rewrite K2. rewrite Z.bit0_odd.
  destruct Ht as [-> | ->]; destruct last; repeat split; try lia;
    rewrite ?Z.odd_add, ?Z.odd_mul; reflexivity.
Qed.

Lemma payload_parts hdr cmd rest : length hdr = 2%nat ->
  nth 2 (hdr ++ [cmd] ++ rest) 0 = cmd /\ skipn 3 (hdr ++ [cmd] ++ rest) = rest.
Proof. destruct hdr as [|a [|b [|c t]]]; cbn; try discriminate. auto. Qed.

(* the part of a (possibly padded) segment that carries data *)
Lemma strip_pad seg cmd : (cmd / 2) mod 8 = (if (length seg <? 7)%nat then Z.of_nat (7 - length seg) else 0) ->
  (if Nat.eqb (length (pad7 seg)) 7 then firstn (7 - Z.to_nat ((cmd / 2) mod 8)) (pad7 seg) else pad7 seg) = seg.
Proof.
  intros H. rewrite H, pad7_length.
  destruct (Nat.ltb_spec (length seg) 7) as [L|L].
  - replace (Nat.max 7 (length seg)) with 7%nat by lia. cbn [Nat.eqb].
    replace (7 - Z.to_nat (Z.of_nat (7 - length seg)))%nat with (length seg) by lia. apply pad7_firstn.
  - rewrite pad7_long by lia. destruct (Nat.eqb_spec (Nat.max 7 (length seg)) 7) as [E|E]; [|reflexivity].
    change (Z.to_nat 0) with O. rewrite Nat.sub_0_r. apply firstn_all2. lia.
Qed.

(* ---------------- download: all segments reach the server ---------------- *)
Lemma dl_run_ok room data : (7 <= room)%nat ->
  forall fuel stop toggle st, is_toggle toggle ->
  d_buf st = firstn stop data -> d_total st = length data -> d_toggle st = toggle ->
  (stop < length data)%nat -> (length data - stop <= fuel)%nat ->
  srv_dl_run st (dl_segments fuel room data stop toggle) = Some data.
Proof.
  intros Hr. induction fuel as [|k IH]; intros stop toggle st Ht Hb Htot Htg Hs Hf; [lia|].
  cbn [dl_segments]. destruct (Nat.ltb_spec stop (length data)); [|lia].
  set (stop' := Nat.min (length data) (stop + room)).
  set (seg := zslice data stop stop').
  assert (Ls : length seg = (stop' - stop)%nat) by (apply zslice_length; subst stop'; lia).
  cbn [srv_dl_run]. unfold srv_dl_seg.
  destruct (payload_parts coe_req (seg_cmd toggle (Nat.eqb stop' (length data)) (length seg)) (pad7 seg) eq_refl) as [N2 S3].
  rewrite N2, S3.
  destruct (seg_cmd_bits toggle (Nat.eqb stop' (length data)) (length seg) Ht) as (B1 & B2 & _ & B4).
  rewrite B1, Htg, Z.eqb_refl. cbn [negb].
  rewrite pad7_length. destruct (Nat.ltb_spec (Nat.max 7 (length seg)) 7); [lia|].
  rewrite <- pad7_length. rewrite (strip_pad seg _ B4).
  rewrite B2, Hb. unfold seg. rewrite firstn_zslice by (subst stop'; lia).
  destruct (Nat.eqb_spec stop' (length data)) as [E|E].
  - (* last segment *)
    rewrite firstn_length, E, Nat.min_id, Htot, Nat.eqb_refl.
    rewrite firstn_all.
    destruct k; cbn [dl_segments]; [reflexivity|].
    destruct (Nat.ltb_spec (length data) (length data)); [lia|reflexivity].
  - apply IH; cbn [d_buf d_total d_toggle]; try reflexivity; try assumption.
    + apply (flip_toggle _ Ht).
    + subst stop'. lia.
    + subst stop'. lia.
Qed.

Lemma le_val_le_bytes4 z : 0 <= z < 4294967296 -> le_val (le_bytes 4 z) = z.
Proof. intros. rewrite le_val_le_bytes. change (256 ^ Z.of_nat 4) with 4294967296. lia. Qed.

(* the initiate-download message of a normal transfer as the server sees it *)
Lemma dl_init_normal cmdb index s data stop :
  (cmdb = 33 \/ cmdb = 49) -> Z.of_nat (length data) < 4294967296 -> (stop <= length data)%nat ->
  srv_dl_init (coe_req ++ [cmdb] ++ le_bytes 2 index ++ [s] ++ le_bytes 4 (Z.of_nat (length data)) ++ firstn stop data)
  = if Nat.eqb stop (length data) then Some (inr data)
    else Some (inl {| d_total := length data; d_buf := firstn stop data; d_toggle := 0 |}).
Proof.
  intros Hc Hn Hs. unfold srv_dl_init.
  set (p := coe_req ++ [cmdb] ++ le_bytes 2 index ++ [s] ++ le_bytes 4 (Z.of_nat (length data)) ++ firstn stop data).
  assert (N2 : nth 2 p 0 = cmdb) by reflexivity.
  assert (S10 : skipn 10 p = firstn stop data) by reflexivity.
  assert (F4 : firstn 4 (skipn 6 p) = le_bytes 4 (Z.of_nat (length data))) by reflexivity.
  assert (Lp : length p = (10 + stop)%nat).
  { subst p. unfold coe_req. rewrite !app_length, !le_bytes_length, firstn_length. cbn [length]. lia. }
  rewrite N2, S10, F4, Lp. rewrite le_val_le_bytes4 by (split; [apply Nat2Z.is_nonneg|exact Hn]). rewrite Nat2Z.id.
  destruct (Nat.ltb_spec (10 + stop) 10); [lia|].
  assert (B1 : Z.testbit cmdb 1 = false) by (destruct Hc as [-> | ->]; reflexivity).
  assert (B0 : Z.testbit cmdb 0 = true) by (destruct Hc as [-> | ->]; reflexivity).
  rewrite B1, B0. cbn [negb]. rewrite firstn_length.
  destruct (Nat.ltb_spec (length data) (Nat.min stop (length data))); [lia|].
  rewrite Nat.min_l by lia.
  destruct (Nat.eqb_spec stop (length data)) as [E|E]; [|reflexivity].
  rewrite E, firstn_all. reflexivity.
Qed.

Lemma dl_segments_done fuel room data stop toggle : (length data <= stop)%nat ->
  dl_segments fuel room data stop toggle = [].
Proof.
  intros H. destruct fuel; cbn [dl_segments]; [reflexivity|].
  destruct (Nat.ltb_spec stop (length data)); [lia|reflexivity].
Qed.

Lemma dl_normal_ok mbx cmdb index s data : (24 <= mbx)%nat -> (cmdb = 33 \/ cmdb = 49) ->
  Z.of_nat (length data) < 4294967296 ->
  let stop := Nat.min (length data) (mbx - 16) in
  srv_download ((coe_req ++ [cmdb] ++ le_bytes 2 index ++ [s] ++ le_bytes 4 (Z.of_nat (length data)) ++ firstn stop data)
                :: dl_segments (length data) (mbx - 9) data stop 0) = Some data.
Proof.
  intros Hm Hc Hn stop. cbn [srv_download]. rewrite (dl_init_normal cmdb index s data stop Hc Hn) by (subst stop; lia).
  destruct (Nat.eqb_spec stop (length data)) as [E|E].
  - rewrite dl_segments_done by lia. reflexivity.
  - apply dl_run_ok; cbn [d_buf d_total d_toggle]; try reflexivity; try (subst stop; lia). left; reflexivity.
Qed.

(* a value of any length, any mailbox size >= 24, with a subindex or with
   complete access, reaches the conformant server byte for byte *)
Theorem download_exact mbx data index sub :
  (24 <= mbx)%nat -> Z.of_nat (length data) < 4294967296 ->
  srv_download (dl_requests mbx data index sub) = Some data.
Proof.
  intros Hm Hn. unfold dl_requests.
  destruct sub as [s|]; [|apply dl_normal_ok; auto].
  destruct ((0 <? length data)%nat && (length data <=? 4)%nat) eqn:E; [|apply dl_normal_ok; auto].
  apply andb_prop in E. destruct E as [E1 E2]. apply Nat.ltb_lt in E1. apply Nat.leb_le in E2.
  destruct data as [|a [|b [|c [|d [|e t]]]]]; cbn [length] in *; try lia; reflexivity.
Qed.

(* every message fits into the mailbox (6-byte mailbox header included) *)
Lemma dl_segments_fit room data : forall fuel stop toggle, (7 <= room)%nat ->
  Forall (fun p => (length p <= 3 + room)%nat) (dl_segments fuel room data stop toggle).
Proof.
  induction fuel as [|k IH]; intros stop toggle Hr; cbn [dl_segments]; [constructor|].
  destruct (stop <? length data)%nat; [|constructor].
  constructor; [|apply IH, Hr].
  unfold coe_req. rewrite !app_length, pad7_length, le_bytes_length. cbn [length].
  unfold zslice. rewrite firstn_length, skipn_length. lia.
Qed.

Theorem download_fits mbx data index sub : (24 <= mbx)%nat ->
  Forall (fun p => (6 + length p <= mbx)%nat) (dl_requests mbx data index sub).
Proof.
  intros Hm. unfold dl_requests.
  assert (N : forall cmdb s, Forall (fun p => (6 + length p <= mbx)%nat)
            ((coe_req ++ [cmdb] ++ le_bytes 2 index ++ [s] ++ le_bytes 4 (Z.of_nat (length data)) ++
              firstn (Nat.min (length data) (mbx - 16)) data)
             :: dl_segments (length data) (mbx - 9) data (Nat.min (length data) (mbx - 16)) 0)).
  { intros cmdb s. constructor.
    - unfold coe_req. rewrite !app_length, !le_bytes_length, firstn_length. cbn [length]. lia.
    - eapply Forall_impl; [|apply (dl_segments_fit (mbx - 9) data); lia]. cbv beta. intros p Hp. lia. }
  destruct sub as [s|]; [|apply N].
  destruct ((0 <? length data)%nat && (length data <=? 4)%nat) eqn:E; [|apply N].
  apply andb_prop in E. destruct E as [E1 E2]. apply Nat.ltb_lt in E1. apply Nat.leb_le in E2.
  constructor; [|constructor].
  unfold coe_req. rewrite !app_length, !le_bytes_length, repeat_length. cbn [length]. lia.
Qed.

(* ---------------- upload ---------------- *)
Fixpoint alt (t : Z) (k : nat) : list Z := match k with O => [] | S k' => t :: alt (flip t) k' end.

Lemma ul_collect_ok room data : (7 <= room)%nat ->
  forall fuel pos toggle acc toggles, is_toggle toggle -> acc = firstn pos data ->
  (pos < length data)%nat -> (length data - pos <= fuel)%nat ->
  exists k, ul_collect (ul_segments fuel room data pos toggle) (length data) acc toggle toggles = Some (data, toggles ++ alt toggle k).
Proof.
  intros Hr. induction fuel as [|k IH]; intros pos toggle acc toggles Ht Ha Hp Hf; [lia|].
  cbn [ul_segments].
  set (stop := Nat.min (length data) (pos + room)).
  set (seg := zslice data pos stop).
  assert (Ls : length seg = (stop - pos)%nat) by (apply zslice_length; subst stop; lia).
  cbn [ul_collect].
  assert (La : length acc = pos) by (subst acc; rewrite firstn_length; lia).
  rewrite La. destruct (Nat.leb_spec (length data) pos); [lia|].
  destruct (payload_parts coe_res (seg_cmd toggle (length data <=? pos + length seg)%nat (length seg)) (pad7 seg) eq_refl) as [N2 S3].
  rewrite N2, S3.
  destruct (seg_cmd_bits toggle (length data <=? pos + length seg)%nat (length seg) Ht) as (_ & B2 & B3 & B4).
  rewrite B3. cbn [Z.eqb negb]. rewrite (strip_pad seg _ B4), B2.
  assert (Acc' : acc ++ seg = firstn stop data) by (subst acc seg; apply firstn_zslice; subst stop; lia).
  rewrite Acc'.
  destruct (Nat.leb_spec (length data) (pos + length seg)) as [Last|More].
  - assert (stop = length data) by (subst stop; lia).
    rewrite firstn_length, H0, Nat.min_id, Nat.eqb_refl, firstn_all. exists 1%nat. reflexivity.
  - destruct (IH (pos + room)%nat (flip toggle) (firstn stop data) (toggles ++ [toggle])) as [tg Etg].
    + now apply flip_toggle.
    + f_equal. subst stop. lia.
    + subst stop. lia.
    + subst stop. lia.
    + unfold flip in Etg. rewrite Etg. exists (S tg). rewrite <- app_assoc. reflexivity.
Qed.

Theorem upload_exact mbx data index sub ca :
  (24 <= mbx)%nat -> Z.of_nat (length data) < 4294967296 -> 0 <= index < 65536 ->
  exists k, sdo_read (ul_responses mbx data index sub ca) index = Some (data, alt 0 k).
Proof.
  intros Hm Hn Hi. unfold ul_responses.
  destruct (((0 <? length data)%nat && (length data <=? 4)%nat) && negb ca) eqn:E.
  - apply andb_prop in E. destruct E as [E _]. apply andb_prop in E. destruct E as [E1 E2].
    apply Nat.ltb_lt in E1. apply Nat.leb_le in E2.
    assert (I2 : le_val (le_bytes 2 index) = index) by (rewrite le_val_le_bytes; change (256 ^ Z.of_nat 2) with 65536; lia).
    destruct data as [|a [|b [|c [|d [|e t]]]]]; cbn [length] in *; try lia; exists O;
      match goal with |- sdo_read [?p] _ = _ =>
        assert (P1 : le_val (firstn 2 p) / 4096 =? 3 = true) by reflexivity;
        assert (P2 : firstn 2 (skipn 3 p) = le_bytes 2 index) by reflexivity;
        unfold sdo_read; rewrite P1, P2, I2, Z.eqb_refl; cbn [negb]; reflexivity
      end.
  - clear E. set (room := (mbx - 16)%nat).
    set (p0 := coe_res ++ [65] ++ le_bytes 2 index ++ [sub] ++ le_bytes 4 (Z.of_nat (length data)) ++ firstn room data).
    unfold sdo_read.
    assert (F2 : le_val (firstn 2 p0) / 4096 =? 3 = true) by reflexivity.
    assert (I2 : le_val (firstn 2 (skipn 3 p0)) = index).
    { change (firstn 2 (skipn 3 p0)) with (le_bytes 2 index). rewrite le_val_le_bytes. change (256 ^ Z.of_nat 2) with 65536. lia. }
    assert (N2 : nth 2 p0 0 = 65) by reflexivity.
    assert (F4 : firstn 4 (skipn 6 p0) = le_bytes 4 (Z.of_nat (length data))) by reflexivity.
    assert (S10 : skipn 10 p0 = firstn room data) by reflexivity.
    rewrite F2, I2, Z.eqb_refl, N2, F4, S10. rewrite le_val_le_bytes4 by (split; [apply Nat2Z.is_nonneg|exact Hn]). rewrite Nat2Z.id. cbn [negb].
    change (Z.testbit 65 1) with false. cbv iota.
    destruct (Nat.ltb_spec room (length data)) as [L|L].
    + destruct (ul_collect_ok (mbx - 9) data ltac:(lia) (length data) room 0 (firstn room data) [] ltac:(left; reflexivity) eq_refl L ltac:(lia))
        as [tg Etg]. exists tg. exact Etg.
    + exists O. rewrite firstn_all2 by lia.
      destruct data as [|a t]; cbn [ul_collect length]; [reflexivity|].
      destruct (Nat.leb_spec (S (length t)) (S (length t))); [|lia]. rewrite Nat.eqb_refl. reflexivity.
Qed.

Lemma ul_segments_fit room data : forall fuel pos toggle, (7 <= room)%nat ->
  Forall (fun p => (length p <= 3 + room)%nat) (ul_segments fuel room data pos toggle).
Proof.
  induction fuel as [|k IH]; intros pos toggle Hr; cbn [ul_segments]; [constructor|].
  constructor.
  - unfold coe_res. rewrite !app_length, pad7_length, le_bytes_length. cbn [length].
    unfold zslice. rewrite firstn_length, skipn_length. lia.
  - destruct (_ <=? _)%nat; [constructor|apply IH, Hr].
Qed.

Theorem upload_fits mbx data index sub ca : (24 <= mbx)%nat ->
  Forall (fun p => (6 + length p <= mbx)%nat) (ul_responses mbx data index sub ca).
Proof.
  intros Hm. unfold ul_responses.
  destruct (((0 <? length data)%nat && (length data <=? 4)%nat) && negb ca) eqn:E.
  - apply andb_prop in E. destruct E as [E _]. apply andb_prop in E. destruct E as [E1 E2].
    apply Nat.ltb_lt in E1. apply Nat.leb_le in E2.
    constructor; [|constructor].
    unfold coe_res. rewrite !app_length, !le_bytes_length, repeat_length. cbn [length]. lia.
  - constructor.
    + unfold coe_res. rewrite !app_length, !le_bytes_length, firstn_length. cbn [length]. lia.
    + clear E. destruct (mbx - 16 <? length data)%nat; [|constructor].
      eapply Forall_impl; [|apply (ul_segments_fit (mbx - 9) data); lia]. cbv beta. intros p Hp. lia.
Qed.
