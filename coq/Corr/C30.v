From Verif Require Import Lib.Base Ecat.Cycle.
(* one cycle: counters, response frame (rle-expanded by the harness as plain list),
   device patches -> (errors, next frame) *)
Definition expand (l : list (Z * nat)) : list Z := flat_map (fun p => repeat (fst p) (snd p)) l.
Definition run (counters : list (nat * Z)) (resp : list (Z * nat)) (patches : list (nat * Z)) : V :=
  let '(e, seen, nxt) := update_devices counters (expand resp) (fun _ => patches) in
  VL [VZ e; VR seen; VR nxt].
