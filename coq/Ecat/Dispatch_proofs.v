From Verif Require Import Ecat.Dispatch.
Ltac Zify.zify_post_hook ::= Z.to_euclidean_division_equations.
Local Arguments Z.add : simpl never.
Local Arguments Z.mul : simpl never.
Local Arguments Z.modulo : simpl never.
Local Opaque Z.add Z.modulo.

Lemma land1 b : Z.land b 1 = b mod 2.
Proof. change 1 with (Z.ones 1). rewrite Z.land_ones by lia. reflexivity. Qed.
Lemma odd_mod b : Z.odd b = negb (b mod 2 =? 0).
Proof. rewrite Zmod_odd. destruct (Z.odd b); reflexivity. Qed.

(* ---- facts about one pass ---- *)
(* a frame that goes straight back to the bus had an even index and gets an even one; the counter is even afterwards *)
Theorem tx_even c i c' idx : 0 <= c -> 0 <= i < 256 -> dispatch_core c i = (c', idx, KTx) ->
  i mod 2 = 0 /\ c' mod 2 = 0 /\ exists v, idx = Some v /\ v mod 2 = 0.
Proof.
  intros Hc Hi. unfold dispatch_core. rewrite land1, odd_mod.
  destruct (Z.eqb_spec i (c mod 256)); [discriminate|].
  destruct (Z.eqb_spec ((i + 1) mod 256) (c mod 256)); destruct (Z.eqb_spec i 0); cbn [orb]; try discriminate;
    destruct (Z.eqb_spec ((c mod 256) mod 2) 0); cbn [negb]; try discriminate; intros H; injection H as <- <-;
    (split; [lia|split; [lia|eexists; split; [reflexivity|lia]]]).
Qed.

(* a frame handed to the group's program gets an odd index *)
Theorem tail_odd c i c' idx : 0 <= c -> 0 <= i < 256 -> dispatch_core c i = (c', idx, KTail) ->
  c' mod 2 = 1 /\ exists v, idx = Some v /\ v mod 2 = 1.
Proof.
  intros Hc Hi. unfold dispatch_core. rewrite land1, odd_mod.
  destruct (Z.eqb_spec i (c mod 256)).
  - intros H. injection H as <- <-. split; [lia|eexists; split; [reflexivity|lia]].
  - destruct (Z.eqb_spec ((i + 1) mod 256) (c mod 256)); destruct (Z.eqb_spec i 0); cbn [orb]; try discriminate;
      destruct (Z.eqb_spec ((c mod 256) mod 2) 0); cbn [negb]; try discriminate; intros H; injection H as <- <-;
      (split; [lia|eexists; split; [reflexivity|lia]]).
Qed.

(* with an even counter no frame goes straight back to the bus *)
Theorem even_counter_no_tx c i : c mod 2 = 0 -> snd (dispatch_core c i) <> KTx.
Proof.
  intros He. unfold dispatch_core. rewrite odd_mod.
  destruct (i =? c mod 256); [cbn; discriminate|].
  destruct ((((i + 1) mod 256) =? c mod 256) || (i =? 0)); [|cbn; discriminate].
  destruct (Z.eqb_spec ((c mod 256) mod 2) 0); cbn; [discriminate|lia].
Qed.

(* hence never two consecutive frames of a group go straight back to the bus *)
Theorem no_two_tx c i c' idx i' : 0 <= c -> 0 <= i < 256 ->
  dispatch_core c i = (c', idx, KTx) -> snd (dispatch_core c' i') <> KTx.
Proof. intros Hc Hi H. apply even_counter_no_tx. apply (tx_even c i c' idx Hc Hi H). Qed.

(* ---- histories: the frames of one group in flight, each with its index and whether its write datagrams are enabled ---- *)
Inductive event := Inject | Lose (k : nat) | Deliver (k : nat).
Record gstate := { counter : Z; flight : list (Z * bool) }.

Definition remove_nth {A} (k : nat) (l : list A) : list A := firstn k l ++ skipn (S k) l.

(* returns the new state and, for a delivery, what happened to the frame and whether it was enabled *)
Definition gstep (s : gstate) (e : event) : gstate * option (kind * bool) :=
  match e with
  | Inject => ({| counter := counter s; flight := (0, false) :: flight s |}, None)      (* user space sends a sterile frame, index 0 *)
  | Lose k => ({| counter := counter s; flight := remove_nth k (flight s) |}, None)
  | Deliver k =>
      match nth_error (flight s) k with
      | None => (s, None)
      | Some (i, en) =>
          let '(c', idx, kd) := dispatch_core (counter s) i in
          let rest := remove_nth k (flight s) in
          match kd, idx with
          | KTail, Some v => ({| counter := c'; flight := (v, true) :: rest |}, Some (KTail, en))    (* the program runs and enables the writes *)
          | KTx, Some v => ({| counter := c'; flight := (v, en) :: rest |}, Some (KTx, en))
          | _, _ => ({| counter := c'; flight := rest |}, Some (KUser, en))                           (* leaves to user space *)
          end
      end
  end.

Definition ginv (s : gstate) : Prop :=
  0 <= counter s /\ Forall (fun f => 0 <= fst f < 256 /\ (snd f = true -> fst f mod 2 = 1)) (flight s).

Lemma in_firstn' {A} (x : A) : forall k l, In x (firstn k l) -> In x l.
Proof. induction k as [|k IH]; intros [|y l] H; cbn in *; try contradiction. destruct H; [left; assumption|right; auto]. Qed.
Lemma in_skipn' {A} (x : A) : forall k l, In x (skipn k l) -> In x l.
Proof. induction k as [|k IH]; intros [|y l] H; cbn in *; try contradiction; auto. Qed.
Lemma remove_nth_forall {A} (P : A -> Prop) k l : Forall P l -> Forall P (remove_nth k l).
Proof.
  intros H. unfold remove_nth. apply Forall_app. rewrite Forall_forall in H. split; apply Forall_forall; intros x Hx; apply H.
  - eapply in_firstn'; eauto.
  - eapply in_skipn'; eauto.
Qed.

Lemma core_counter_nonneg c i : 0 <= c -> 0 <= fst (fst (dispatch_core c i)).
Proof.
  intros H. unfold dispatch_core. destruct (i =? c mod 256); cbn [fst]; [lia|].
  destruct ((((i + 1) mod 256) =? c mod 256) || (i =? 0)); [|cbn; lia]. destruct (Z.odd (c mod 256)); cbn; lia.
Qed.

Lemma core_index_range c i c' v kd : dispatch_core c i = (c', Some v, kd) -> 0 <= v < 256.
Proof.
  unfold dispatch_core. destruct (i =? c mod 256); [intros H; injection H as <- <- <-; lia|].
  destruct ((((i + 1) mod 256) =? c mod 256) || (i =? 0)); [|discriminate].
  destruct (Z.odd (c mod 256)); intros H; injection H as <- <- <-; lia.
Qed.

Theorem ginv_step s e : ginv s -> ginv (fst (gstep s e)).
Proof.
  intros [Hc Hf]. destruct e as [|k|k]; cbn [gstep].
  - split; [exact Hc|]. constructor; [cbn; split; [lia|discriminate]|exact Hf].
  - split; [exact Hc|]. apply remove_nth_forall. exact Hf.
  - destruct (nth_error (flight s) k) as [[i en]|] eqn:E; [|split; assumption].
    assert (Hi : 0 <= i < 256 /\ (en = true -> i mod 2 = 1)).
    { rewrite Forall_forall in Hf. apply (Hf (i, en)). eapply nth_error_In; eauto. }
    pose proof (core_counter_nonneg (counter s) i Hc) as Hn.
    destruct (dispatch_core (counter s) i) as [[c' idx] kd] eqn:D. cbn [fst] in Hn.
    pose proof (remove_nth_forall _ k _ Hf) as Hr.
    destruct kd, idx as [v|]; cbn [fst]; try (split; [exact Hn|exact Hr]).
    + (* TX *) destruct (tx_even _ _ _ _ Hc (proj1 Hi) D) as (Ei & _ & v' & Ev & Hv). injection Ev as <-.
      split; [exact Hn|]. constructor; [|exact Hr]. cbn [fst snd]. split; [eapply core_index_range; eauto|].
      intros Hen. destruct Hi as [_ Hi]. specialize (Hi Hen). lia.
    + (* program *) destruct (tail_odd _ _ _ _ Hc (proj1 Hi) D) as (_ & v' & Ev & Hv). injection Ev as <-.
      split; [exact Hn|]. constructor; [|exact Hr]. cbn [fst snd]. split; [eapply core_index_range; eauto|intros _; exact Hv].
Qed.

Theorem ginv_run : forall es s, ginv s -> ginv (fold_left (fun st e => fst (gstep st e)) es s).
Proof. induction es as [|e es IH]; intros s H; cbn [fold_left]; [exact H|]. apply IH. apply ginv_step. exact H. Qed.

(* In EVERY history (any number of frames in flight, deliveries in any order, losses, injections): a frame
   that goes back to the bus without the group's program has no enabled write datagrams *)
Theorem tx_never_enabled es s e en : ginv s ->
  snd (gstep (fold_left (fun st e => fst (gstep st e)) es s) e) = Some (KTx, en) -> en = false.
Proof.
  intros H0. pose proof (ginv_run es s H0) as [Hc Hf]. set (st := fold_left _ es s) in *.
  destruct e as [|k|k]; cbn [gstep]; try discriminate.
  destruct (nth_error (flight st) k) as [[i en']|] eqn:E; [|discriminate].
  assert (Hi : 0 <= i < 256 /\ (en' = true -> i mod 2 = 1)).
  { rewrite Forall_forall in Hf. apply (Hf (i, en')). eapply nth_error_In; eauto. }
  destruct (dispatch_core (counter st) i) as [[c' idx] kd] eqn:D.
  destruct kd, idx as [v|]; cbn [snd]; intros H; try discriminate; injection H as <-.
  destruct (tx_even _ _ _ _ Hc (proj1 Hi) D) as (Ei & _). destruct en'; [|reflexivity].
  destruct Hi as [_ Hi]. specialize (Hi eq_refl). lia.
Qed.

(* ---------------- frame level ---------------- *)
Theorem dispatch_never_drops reg f m : snd (dispatch reg f m) <> ADrop.
Proof.
  unfold dispatch. destruct (negb (is_group_frame f)); [cbn; discriminate|].
  destruct (MAX_PROGS <=? u32le f ADDR0); [cbn; discriminate|].
  destruct (dispatch_core _ _) as [[c' idx] kd]. destruct kd; cbn; try discriminate.
  destruct (reg _); cbn; discriminate.
Qed.

(* everything that is not a frame of a fast sync group passes unchanged *)
Theorem foreign_unchanged reg f m : is_group_frame f = false -> dispatch reg f m = (f, m, APass).
Proof. intros H. unfold dispatch. rewrite H. reflexivity. Qed.

Lemma byte_set_other l k j v : j <> k -> byte_at (set_byte l k v) j = byte_at l j.
Proof. intros H. unfold byte_at, set_byte. apply nth_set_at_other. auto. Qed.
Lemma byte_set_same l k v : (k < length l)%nat -> byte_at (set_byte l k v) k = v mod 256.
Proof. intros H. unfold byte_at, set_byte. apply nth_set_at_same. exact H. Qed.
Lemma set_byte_length l k v : length (set_byte l k v) = length l.
Proof. apply set_at_length. Qed.

Lemma to_user_spec f : (30 < length f)%nat -> 0 <= byte_at f DATA0 < 256 -> 0 <= byte_at f (S DATA0) < 256 ->
  byte_at (to_user f) ETHERTYPE_POS = byte_at f (S DATA0) /\ byte_at (to_user f) (S ETHERTYPE_POS) = byte_at f DATA0 /\
  length (to_user f) = length f /\ forall j, j <> ETHERTYPE_POS -> j <> S ETHERTYPE_POS -> byte_at (to_user f) j = byte_at f j.
Proof.
  intros L B0 B1. unfold to_user, ETHERTYPE_POS, DATA0 in *. repeat split.
  - rewrite byte_set_other by lia. rewrite byte_set_same by lia. apply Z.mod_small. exact B1.
  - rewrite byte_set_same by (rewrite set_byte_length; lia). apply Z.mod_small. exact B0.
  - rewrite !set_byte_length. reflexivity.
  - intros j H1 H2. rewrite !byte_set_other by auto. reflexivity.
Qed.

(* a frame of a group without registered program is never handed to a program; when it leaves the dispatcher towards
   user space it carries the ethertype of the identification datagram *)
Theorem unregistered_group reg f m f' m' a : is_group_frame f = true -> (forall g, reg g = false) ->
  Forall (fun b => 0 <= b < 256) f ->
  dispatch reg f m = (f', m', a) ->
  (a = ATx \/ (a = APass /\ byte_at f' ETHERTYPE_POS = byte_at f (S DATA0) /\ byte_at f' (S ETHERTYPE_POS) = byte_at f DATA0)).
Proof.
  intros G R B. unfold dispatch. rewrite G. cbn [negb].
  assert (L : (30 < length f)%nat).
  { unfold is_group_frame in G. repeat (apply andb_true_iff in G as [G ?]). apply Z.ltb_lt in G. unfold zlen in G. lia. }
  assert (Bk : forall k, (k < length f)%nat -> 0 <= byte_at f k < 256).
  { intros k Hk. rewrite Forall_forall in B. apply B. unfold byte_at. apply nth_In. exact Hk. }
  destruct (MAX_PROGS <=? u32le f ADDR0).
  - intros H. injection H as <- <- <-. right. split; [reflexivity|].
    destruct (to_user_spec f L (Bk DATA0 ltac:(unfold DATA0; lia)) (Bk (S DATA0) ltac:(unfold DATA0; lia))) as (A1 & A2 & _). auto.
  - destruct (dispatch_core _ _) as [[c' idx] kd] eqn:D. destruct kd.
    + intros H. injection H as <- <- <-. left. reflexivity.
    + rewrite R. intros H. injection H as <- <- <-. right. split; [reflexivity|].
      set (f1 := match idx with Some v => set_byte f INDEX0 v | None => f end).
      assert (L1 : length f1 = length f) by (subst f1; destruct idx; [apply set_byte_length|reflexivity]).
      assert (E : forall j, j <> INDEX0 -> byte_at f1 j = byte_at f j) by (intros j Hj; subst f1; destruct idx; [apply byte_set_other; exact Hj|reflexivity]).
      destruct (to_user_spec f1) as (A1 & A2 & _); [lia| | |].
      * rewrite E by (unfold DATA0, INDEX0; lia). apply Bk. unfold DATA0. lia.
      * rewrite E by (unfold DATA0, INDEX0; lia). apply Bk. unfold DATA0. lia.
      * rewrite A1, A2, !E by (unfold DATA0, INDEX0; lia). auto.
    + intros H. injection H as <- <- <-. right. split; [reflexivity|].
      destruct (to_user_spec f L (Bk DATA0 ltac:(unfold DATA0; lia)) (Bk (S DATA0) ltac:(unfold DATA0; lia))) as (A1 & A2 & _). auto.
Qed.

(* the dispatcher itself writes only the frame index and the ethertype: it never enables a datagram *)
Theorem dispatch_touches reg f m j : j <> INDEX0 -> j <> ETHERTYPE_POS -> j <> S ETHERTYPE_POS ->
  byte_at (fst (fst (dispatch reg f m))) j = byte_at f j.
Proof.
  intros H1 H2 H3. unfold dispatch. destruct (negb (is_group_frame f)); [reflexivity|].
  assert (T : forall x, byte_at (to_user x) j = byte_at x j) by (intros x; unfold to_user; rewrite !byte_set_other by auto; reflexivity).
  destruct (MAX_PROGS <=? u32le f ADDR0); cbn [fst]; [apply T|].
  destruct (dispatch_core _ _) as [[c' idx] kd].
  assert (E : byte_at (match idx with Some v => set_byte f INDEX0 v | None => f end) j = byte_at f j)
    by (destruct idx; [apply byte_set_other; exact H1|reflexivity]).
  destruct kd; cbn [fst]; [exact E| |apply T]. destruct (reg _); cbn [fst]; [exact E|rewrite T; exact E].
Qed.

(* ---------------- re-activation ---------------- *)
Theorem activate_disabled l f : activate l f 0 = (f, 0).
Proof. reflexivity. Qed.

(* bytes that are neither a command byte nor a working counter of a write datagram are never changed *)
Fixpoint touched (l : list otf) : list nat :=
  match l with [] => [] | (start, wkc, _, _) :: tl => (start + 14)%nat :: (wkc + 14)%nat :: (wkc + 15)%nat :: touched tl end.

Theorem activate_frame : forall l f errors j, ~ In j (touched l) ->
  byte_at (fst (activate_all l f errors)) j = byte_at f j /\ length (fst (activate_all l f errors)) = length f.
Proof.
  induction l as [|[[[start wkc] cmd] expected] tl IH]; intros f errors j Hj; cbn [activate_all touched] in *; [split; reflexivity|].
  destruct (IH (set_byte (set_byte (set_byte f (start + 14) cmd) (wkc + 14) 0) (wkc + 15) 0)
               (if u16le (set_byte f (start + 14) cmd) (wkc + 14) =? expected then errors else (errors + 1) mod 4294967296) j) as [A B].
  { intros H. apply Hj. right. right. right. exact H. }
  rewrite A, B, !set_byte_length. split; [|reflexivity].
  rewrite !byte_set_other; [reflexivity| | |]; intros ->; apply Hj; cbn; auto.
Qed.

(* the number of counted errors is at most one per write datagram (as long as the 32-bit counter does not wrap) *)
Theorem activate_errors_bound : forall l f errors, 0 <= errors -> errors + zlen l < 4294967296 ->
  errors <= snd (activate_all l f errors) <= errors + zlen l.
Proof.
  induction l as [|[[[start wkc] cmd] expected] tl IH]; intros f errors H0 H1; cbn [activate_all]; [unfold zlen; cbn; lia|].
  unfold zlen in *. cbn [length] in *.
  match goal with |- _ <= snd (activate_all tl ?f' ?e') <= _ => specialize (IH f' e') end.
  destruct (_ =? expected).
  - specialize (IH H0 ltac:(lia)). lia.
  - rewrite Z.mod_small in * by lia. specialize (IH ltac:(lia) ltac:(lia)). lia.
Qed.

(* one datagram: the command is written back, the counter cleared, an error counted iff the counter differs *)
Theorem activate_one start wkc cmd expected f errors : errors <> 0 ->
  (start + 14 < length f)%nat -> (wkc + 15 < length f)%nat -> (start + 14 <> wkc + 14)%nat -> (start + 14 <> wkc + 15)%nat ->
  let '(f', e') := activate [(start, wkc, cmd, expected)] f errors in
  byte_at f' (start + 14) = cmd mod 256 /\ byte_at f' (wkc + 14) = 0 /\ byte_at f' (wkc + 15) = 0 /\
  e' = if u16le f (wkc + 14) =? expected then errors else (errors + 1) mod 4294967296.
Proof.
  intros He L1 L2 N1 N2. unfold activate. destruct (Z.eqb_spec errors 0); [contradiction|]. cbn [activate_all].
  assert (U : u16le (set_byte f (start + 14) cmd) (wkc + 14) = u16le f (wkc + 14)).
  { unfold u16le. rewrite !byte_set_other by lia. reflexivity. }
  rewrite U. repeat split.
  - rewrite !byte_set_other by lia. apply byte_set_same. exact L1.
  - rewrite byte_set_other by lia. rewrite byte_set_same by (rewrite set_byte_length; lia). reflexivity.
  - rewrite byte_set_same by (rewrite !set_byte_length; lia). reflexivity.
Qed.
