From Verif Require Import Dev.Serial.

Definition pend (s : sys) : bool := negb (Bool.eqb (o_treq (s_dev s)) (t_tacc (s_term s))).
Definition chunk_ok (c : list Z) : Prop := (0 < length c <= chunk)%nat.

Record Inv (s : sys) : Prop := {
  (* device not yet connected: everything at rest *)
  i_rest : connected (s_dev s) = false ->
           lta (s_dev s) = false /\ lrr (s_dev s) = false /\ lra (s_dev s) = false /\ ltr (s_dev s) = false /\
           cur (s_dev s) = None /\ o_treq (s_dev s) = false /\ o_racc (s_dev s) = false /\ (t_phase (s_term s) <= 1)%nat;
  i_out : o_treq (s_dev s) = ltr (s_dev s) /\ o_racc (s_dev s) = lra (s_dev s);
  (* terminal before the end of initialisation: no traffic yet *)
  i_early : (t_phase (s_term s) < 2)%nat ->
            t_tacc (s_term s) = false /\ t_rreq (s_term s) = false /\ accepted s = [] /\ announced s = [] /\
            (t_iacc (s_term s) = match t_phase (s_term s) with O => false | _ => true end);
  i_late : (2 <= t_phase (s_term s))%nat -> t_iacc (s_term s) = false;
  (* transmit direction *)
  i_tx : concat (accepted s) ++ (if pend s then o_str (s_dev s) else []) ++ s_pipe s = written s;
  i_pend : pend s = true -> cur (s_dev s) = Some (o_str (s_dev s)) /\ lta (s_dev s) = t_tacc (s_term s) /\
                            chunk_ok (o_str (s_dev s));
  i_idle : pend s = false -> (cur (s_dev s) = None <-> lta (s_dev s) = t_tacc (s_term s));
  i_chunks : Forall chunk_ok (accepted s);
  (* receive direction *)
  i_rx1 : Bool.eqb (lrr (s_dev s)) (t_rreq (s_term s)) = Bool.eqb (t_rreq (s_term s)) (o_racc (s_dev s));
  i_rx2 : if Bool.eqb (t_rreq (s_term s)) (o_racc (s_dev s)) then delivered s = announced s
          else announced s = delivered s ++ [t_str (s_term s)] }.

Lemma inv0 : Inv sys0.
Proof.
  constructor; cbn.
  - intros _. repeat split; auto.
  - auto.
  - intros _. repeat split; auto.
  - lia.
  - reflexivity.
  - discriminate.
  - intros _. split; auto.
  - constructor.
  - reflexivity.
  - reflexivity.
Qed.

Lemma inv_write s b : Inv s -> Inv (step s (EWrite b)).
Proof.
  intros [R O E L T P I C X1 X2]. constructor; cbn [step s_dev s_term s_pipe written accepted announced delivered]; auto.
  unfold pend in *. cbn [s_dev s_term]. rewrite <- T. rewrite !app_assoc. reflexivity.
Qed.

Lemma chunk_firstn (p : list Z) : p <> [] -> chunk_ok (firstn chunk p).
Proof.
  intros H. unfold chunk_ok. rewrite firstn_length. destruct p; [congruence|]. cbn [length]. unfold chunk. lia.
Qed.

Lemma eqb_false_neq a b : Bool.eqb a b = false -> a <> b.
Proof. destruct a, b; cbn; congruence. Qed.
Lemma eqb_true_eq a b : Bool.eqb a b = true -> a = b.
Proof. apply Bool.eqb_prop. Qed.

Lemma concat_snoc {A} (l : list (list A)) c : concat (l ++ [c]) = concat l ++ c.
Proof. rewrite concat_app. cbn. now rewrite app_nil_r. Qed.

Ltac fin :=
  intros;
  repeat match goal with
  | H : ?a = ?a -> _ |- _ => specialize (H eq_refl)
  | H : _ /\ _ |- _ => destruct H
  | H : Some _ = Some _ |- _ => injection H as H
  end;
  subst;
  rewrite ?concat_snoc; cbn [app] in *; rewrite <- ?app_assoc; rewrite ?firstn_skipn;
  first [ solve [congruence] | reflexivity | assumption
        | solve [split; intros; discriminate]
        | solve [apply Forall_app; split; [assumption| constructor; [first [assumption | apply chunk_firstn; discriminate] | constructor]]]
        | solve [repeat match goal with |- _ /\ _ => split end; try reflexivity; try assumption; try (apply chunk_firstn; discriminate)] ].

Lemma inv_cycle s o : Inv s -> Inv (step s (ECycle o)).
Proof.
  intros [R O E L T P I C X1 X2].
  destruct s as [d t pipe W A N D]. destruct d as [cn lta lrr lra ltr cur treq racc ireq ostr].
  destruct t as [ph tacc rreq iacc tstr]. destruct o as [oi oa on].
  unfold pend in *. cbn [s_dev s_term s_pipe written accepted announced delivered
                         connected Serial.lta Serial.lrr Serial.lra Serial.ltr Serial.cur o_treq o_racc o_ireq o_str
                         t_phase t_tacc t_rreq t_iacc t_str] in *.
  destruct O as [-> ->].
  unfold step. cbn [s_dev s_term s_pipe written accepted announced delivered].
  unfold update, inputs_of. cbn [connected i_iacc i_tacc i_rreq i_str Serial.lta Serial.lrr Serial.lra Serial.ltr Serial.cur
                                o_treq o_racc o_ireq o_str t_tacc t_rreq t_iacc t_str].
  destruct cn; cbn [negb].
  2:{ (* not connected *)
    destruct (R eq_refl) as (-> & -> & -> & -> & -> & _ & _ & Hph).
    destruct (E ltac:(lia)) as (-> & -> & -> & -> & Hia).
    cbn [Bool.eqb negb] in *.
    destruct ph as [|[|ph]]; [| |lia]; subst iacc.
    - (* phase 0 *)
      unfold react. cbn [t_phase o_ireq]. destruct oi; cbn [andb];
        constructor; cbn; intros; repeat split; auto; try lia; try discriminate; try tauto.
    - unfold react. cbn [t_phase o_ireq negb]. destruct oi; cbn [andb];
        constructor; cbn; intros; repeat split; auto; try lia; try discriminate; try tauto. }
  (* connected *)
  clear R.
  destruct lta, lrr, lra, ltr, tacc, rreq; cbn [Bool.eqb negb] in *;
    try discriminate X1;
    destruct cur as [c|];
    try solve [exfalso; discriminate (proj2 (I eq_refl) eq_refl)];
    try solve [exfalso; destruct (P eq_refl) as (Pc & _ & _); discriminate Pc];
    try solve [exfalso; destruct (P eq_refl) as (_ & Pc & _); discriminate Pc];
    try solve [exfalso; assert (X : false = true) by (apply (proj1 (I eq_refl)); reflexivity); discriminate X];
    try solve [exfalso; assert (X : true = false) by (apply (proj1 (I eq_refl)); reflexivity); discriminate X].
  all: try match goal with |- context [match ?p with [] => _ | _ :: _ => _ end] => is_var p; destruct p as [|p0 pipe'] end.
  all: unfold react; cbn [t_phase t_tacc t_rreq t_iacc t_str o_treq o_racc o_ireq o_str Bool.eqb negb];
       destruct ph as [|[|ph]];
       try solve [exfalso; destruct (E ltac:(lia)) as (X & _); discriminate X];
       try solve [exfalso; destruct (E ltac:(lia)) as (_ & X & _); discriminate X].
  all: destruct oi, oa; cbn [or_init or_accept or_announce andb negb Bool.eqb]; try destruct on as [nc|].
  all: try (destruct (E ltac:(lia)) as (_ & _ & -> & -> & Hia)); try (pose proof (L ltac:(lia)) as Hia).
  all: constructor; cbn [s_dev s_term s_pipe written accepted announced delivered opt_snoc
                         connected Serial.lta Serial.lrr Serial.lra Serial.ltr Serial.cur o_treq o_racc o_ireq o_str
                         t_phase t_tacc t_rreq t_iacc t_str pend Bool.eqb negb] in *.
  all: try (intros; discriminate).
  all: try (intros; lia).
  all: try reflexivity.
  all: try (split; reflexivity).
  all: try assumption.
  all: fin.
Qed.

Lemma inv_step s e : Inv s -> Inv (step s e).
Proof. destruct e; [apply inv_write|apply inv_cycle]. Qed.

Theorem reachable_inv evs : Inv (fold_left step evs sys0).
Proof.
  assert (G : forall s, Inv s -> Inv (fold_left step evs s)).
  { induction evs as [|e evs IH]; intros s H; cbn [fold_left]; [exact H|]. apply IH, inv_step, H. }
  apply G, inv0.
Qed.

(* transmit: the chunks the terminal took, then the chunk being presented,
   then what is still in the pipe are exactly the bytes the application wrote *)
Theorem tx_exactly_once evs : let s := fold_left step evs sys0 in
  concat (accepted s) ++ (if pend s then o_str (s_dev s) else []) ++ s_pipe s = written s /\
  Forall chunk_ok (accepted s).
Proof. intros s. destruct (reachable_inv evs) as [R O E L T P I C X1 X2]. fold s in T, C. split; [exact T|exact C]. Qed.

(* receive: everything announced was delivered, in order, except possibly the
   chunk announced after the device's last update *)
Theorem rx_exactly_once evs : let s := fold_left step evs sys0 in
  delivered s = announced s \/ announced s = delivered s ++ [t_str (s_term s)].
Proof.
  intros s. destruct (reachable_inv evs) as [R O E L T P I C X1 X2]. fold s in X2.
  clear X1. destruct (Bool.eqb (t_rreq (s_term s)) (o_racc (s_dev s))); [left|right]; assumption.
Qed.

(* a presented chunk and its request bit stay as they are until acknowledged *)
Theorem tx_kept_until_ack evs o : let s := fold_left step evs sys0 in
  pend s = true ->
  let s' := step s (ECycle o) in
  o_treq (s_dev s') = o_treq (s_dev s) /\ o_str (s_dev s') = o_str (s_dev s) /\ s_pipe s' = s_pipe s.
Proof.
  intros s Hp. pose proof (reachable_inv evs) as H. fold s in H. destruct H as [R O E L T P I C X1 X2].
  destruct (P Hp) as (Pc & Pl & _).
  destruct (connected (s_dev s)) eqn:Cn.
  2:{ exfalso. destruct (R eq_refl) as (_ & _ & _ & _ & _ & Ht & _ & Hph).
      destruct (E ltac:(lia)) as (Ha & _). unfold pend in Hp. rewrite Ht, Ha in Hp. discriminate. }
  destruct O as [O1 O2].
  cbn [step]. unfold update. rewrite Cn. cbn [negb].
  unfold inputs_of. cbn [i_tacc i_rreq i_iacc i_str]. rewrite Pl, Bool.eqb_reflx. cbn [negb]. rewrite Pc.
  destruct (react _ _ _) as [[t' acc] ann]. cbn [s_dev s_pipe o_treq o_str]. rewrite O1. auto.
Qed.

(* the request bit toggles only when a fresh chunk is taken from the pipe *)
Theorem tx_one_toggle_per_chunk evs o : let s := fold_left step evs sys0 in
  let s' := step s (ECycle o) in
  o_treq (s_dev s') <> o_treq (s_dev s) ->
  s_pipe s <> [] /\ o_str (s_dev s') = firstn chunk (s_pipe s) /\ s_pipe s' = skipn chunk (s_pipe s).
Proof.
  intros s s'. pose proof (reachable_inv evs) as H. fold s in H. destruct H as [R [O1 O2] E L T P I C X1 X2].
  subst s'. cbn [step]. unfold update.
  destruct (connected (s_dev s)) eqn:Cn; cbn [negb].
  2:{ destruct (i_iacc (inputs_of (s_term s))); destruct (react _ _ _) as [[t' acc] ann];
      cbn [s_dev o_treq]; congruence. }
  destruct (negb (Bool.eqb (lta (s_dev s)) (i_tacc (inputs_of (s_term s))))); [|destruct (cur (s_dev s))].
  - destruct (s_pipe s) as [|p0 pp] eqn:Ep; destruct (react _ _ _) as [[t' acc] ann]; cbn [s_dev s_pipe o_treq o_str]; intros Hn.
    + congruence.
    + split; [discriminate|auto].
  - destruct (react _ _ _) as [[t' acc] ann]; cbn [s_dev o_treq]; congruence.
  - destruct (s_pipe s) as [|p0 pp] eqn:Ep; destruct (react _ _ _) as [[t' acc] ann]; cbn [s_dev s_pipe o_treq o_str]; intros Hn.
    + congruence.
    + split; [discriminate|auto].
Qed.
