(* C23 Processes sharing an interface coordinate the dispatcher safely.
   Model: Sys/StartStop.v - the start and stop sequences of
   ParallelEtherCat.run as atomic steps on the shared objects (lock directory with
   one file per participant, pinned program table, XDP attachment);
   Sys/FmmuLock.v - the shared map of logical address windows.  Validated on
   every run: the REAL run() / FMMULock in forked processes, gated at every
   operation on a shared object and interleaved by schedules. *)
From Verif Require Import Sys.StartStop Sys.StartStop_proofs Sys.FmmuLock Sys.FmmuLock_proofs Sys.FmmuBytes Sys.FmmuBytes_proofs.

(* TWO participants, EVERY interleaving of their steps and every outcome of the random ethertype draws (a closed finite
   set of 463 states, closure and invariants checked by computation inside the kernel): at most one participant installs
   the dispatcher at a time, and running participants have distinct ethertypes *)
Theorem C23_two_participants : forall sched,
  let s := run_sched [1; 2] (init 2) sched in p1 s = true /\ p3 s = true.
Proof. exact two_participants_safe. Qed.
Print Assumptions C23_two_participants.

(* THREE participants, every interleaving: the same, by a structural closure proof over the 25860 reachable states (the index
   used to find a successor in the set is not trusted: the state found is compared structurally) *)
Theorem C23_three_participants : forall sched,
  p1 (run_sched [1; 2] (init 3) sched) = true /\ p3 (run_sched [1; 2] (init 3) sched) = true.
Proof. exact three_participants_safe. Qed.
Print Assumptions C23_three_participants.

(* the address windows: in EVERY history of allocations and releases (any number of processes) no two processes hold
   the same window number, different numbers mean disjoint windows, and the 4096-byte blocks a process hands to its sync
   groups stay inside its window *)
Theorem C23_windows_distinct : forall es, finv (fold_left fstep es {| used := []; held := [] |}).
Proof. exact windows_distinct. Qed.
Theorem C23_windows_disjoint : forall a b, a <> b -> window_hi a <= window_lo b \/ window_hi b <= window_lo a.
Proof. exact windows_disjoint. Qed.
Theorem C23_groups_in_window : forall a k, 1 <= k < 1024 -> window_lo a <= group_addr a k /\ group_addr a k + 4096 <= window_hi a.
Proof. exact group_in_window. Qed.
Print Assumptions C23_windows_distinct.

(* NOT TRUE of the code (recorded finding): the dispatcher and its program table do not stay installed while a participant
   is running - a leaver that emptied the lock directory still detaches and unpins after a fresh starter installed its own *)
Theorem C23_refuted_stays_installed : let s := run_sched [1; 2] (init 2) race in
  p2 s = false /\ map (fun p => pc_code (p_pc p)) (procs s) = [15; 10] /\ att s = None /\ pin s = None.
Proof. exact p2_refuted. Qed.
(* repaired defect: the creator's unlocked write of the window map *)
Theorem C23_pinned_fmmu_refuted :
  let s := fold_left fstep_pinned [PCreate; PJoinAlloc 1 7; PCreatorWrite; PJoinAlloc 2 7] {| used := []; held := [] |} in
  map snd (held s) = [7; 7; 1].
Proof. exact pinned_refuted. Qed.

(* a removal that is not excluded from allocations (read and write of the map byte as two steps) hands one window to two processes *)
Theorem C23_split_release_refuted :
  let s := fold_left sstep [SAlloc 0 9; SRelRead 0; SAlloc 1 10; SRelWrite 0; SAlloc 2 10] {| s_f := {| used := []; held := [] |}; s_snap := [] |} in
  ~ NoDup (map snd (held (s_f s))).
Proof. exact split_release_refuted. Qed.
Print Assumptions C23_split_release_refuted.

(* ---- the bytes of the map file (Sys/FmmuBytes.v: byte | (1 << k) and byte & ~(1 << k) as lock.py computes them).
   C23_windows_distinct above is about a LIST of taken numbers; these carry it to the 64 bytes: a removal clears the bit of the
   leaver's number and no other bit of the map, an allocation sets one bit and no other ... *)
Theorem C23_remove_clears_only_own_bit : forall m a j, length m = 64%nat -> 0 <= a < 512 -> 0 <= j < 512 ->
  testb (clear_bit m a) j = testb m j && negb (j =? a).
Proof. exact clear_bit_spec. Qed.
Print Assumptions C23_remove_clears_only_own_bit.

Theorem C23_alloc_sets_only_own_bit : forall m a j, length m = 64%nat -> 0 <= a < 512 -> 0 <= j < 512 ->
  testb (set_bit m a) j = testb m j || (j =? a).
Proof. exact set_bit_spec. Qed.
Print Assumptions C23_alloc_sets_only_own_bit.

(* ... so that after ANY sequence of allocations and removals, starting from the empty file, the file still consists of 64 bytes,
   and marks exactly the numbers that the abstract state (for which distinctness is proved) holds as used *)
Theorem C23_map_bytes_refine : forall evs,
  let '(m, h) := fold_left bstep evs (zeros, []) in
  let s := fold_left fstep evs {| used := []; held := [] |} in
  bytes_ok m /\ h = held s /\ Rmap m (used s).
Proof. exact bytes_refine_fstate. Qed.
Print Assumptions C23_map_bytes_refine.

Example C23_map_bytes_nonvacuous :
  let '(m, h) := fold_left bstep [Alloc 0 10; Alloc 1 12; Alloc 2 300; Release 1] (zeros, []) in
  nth 1 m 0 = 4 /\ nth 37 m 0 = 16 /\ h = [(2, 300); (0, 10)] /\ testb m 10 = true /\ testb m 12 = false.
Proof. vm_compute. repeat split. Qed.
