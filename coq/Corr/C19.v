From Verif Require Import Lib.Base Ecat.ProcVar.
Inductive op := RdB (start : Z) (n : nat) (sg : bool) | RdBit (start : nat) (k : Z)
              | WrB (start : Z) (n : nat) (v : Z) | WrBit (start : nat) (k : Z) (v : bool).

Fixpoint run_ops (fast : bool) (ops : list op) (data : list Z) (reads : list Z) : V :=
  match ops with
  | [] => VL [VB data; VL (map VZ (rev reads))]
  | RdB s n sg :: tl =>
      match (if fast then fast_get data s n sg else slow_get data s n sg) with
      | Some v => run_ops fast tl data (v :: reads) | None => VZ (-1) end
  | RdBit s k :: tl =>
      let v := if fast then fast_get_bit data s k else (if slow_get_bit data s k then 1 else 0) in
      run_ops fast tl data (v :: reads)
  | WrB s n v :: tl =>
      match (if fast then fast_set data s n v else slow_set data s n v) with
      | Some d => run_ops fast tl d reads | None => VZ (-1) end
  | WrBit s k v :: tl =>
      run_ops fast tl (if fast then fast_set_bit data s k v else slow_set_bit data s k v) reads
  end.
Definition run (ops : list op) (data : list Z) : V := VL [run_ops false ops data []; run_ops true ops data []].
