(* Processes sharing one network interface (ebpfcat/ebpfcat.py
   ParallelEtherCat.run / get_ethertype): the start and stop sequences as atomic
   steps on the shared objects - the lock directory /run/lock/ebpf.<if>.lock with
   one file per participant (named after its ethertype), the pinned program
   table /sys/fs/bpf/<if>/programs and the XDP attachment.  Only operations on
   shared objects are steps; everything private to a process happens in between. *)
From Verif Require Export Lib.Base Lib.ListX.
From Coq Require Import MSets.MSetRBT Structures.OrdersEx.
Module ZS := MSetRBT.Make Z_as_OT.

(* program counters *)
Inductive pc :=
| Idle                      (* tmp dir with the own ethertype file exists (private) *)
| Rename                    (* about to rename(tmpdir, lockdir) *)
| JOpen                     (* joiner: about to create its ethertype file in lockdir *)
| JGet1 | JGet2             (* joiner: obj_get(programs), retried once *)
| JUndo                     (* joiner failed: remove the own lock file *)
| FRemove | FAttach | FPin  (* first: remove an old pin, attach the dispatcher, pin the table *)
| FUndo                     (* first failed: rmtree(lockdir) *)
| Running
| TRemove | TRmdir | TDetach | TUnpin
| Done | Aborted.

Record proc := { p_pc : pc; p_eth : Z; p_table : Z }.     (* table: owner of the program table this process registers in; -1 none *)
Record st := {
  lockdir : option (list Z);       (* None: absent; Some files: the ethertypes of the lock files *)
  pin : option Z;                  (* owner of the pinned table *)
  att : option Z;                  (* owner of the table of the attached dispatcher *)
  procs : list proc }.

Definition E0 : Z := 0.             (* the default ethertype; 1, 2, 3 stand for random ones *)
Definition set_proc (s : st) (k : nat) (p : proc) : st :=
  {| lockdir := lockdir s; pin := pin s; att := att s; procs := set_at k p (procs s) |}.
Definition upd (s : st) (k : nat) (p : proc) (ld : option (list Z)) (pn at_ : option Z) : st :=
  {| lockdir := ld; pin := pn; att := at_; procs := set_at k p (procs s) |}.
Definition mk (c : pc) (e t : Z) : proc := {| p_pc := c; p_eth := e; p_table := t |}.
Definition mem (x : Z) (l : list Z) : bool := existsb (Z.eqb x) l.
Definition remove_z (x : Z) (l : list Z) : list Z := filter (fun y => negb (y =? x)) l.
(* a directory listing has no order: keep it sorted *)
Fixpoint insert_z (x : Z) (l : list Z) : list Z := match l with [] => [x] | y :: tl => if x <=? y then x :: l else y :: insert_z x tl end.

(* all successors of process k taking its next step; `choices`: the ethertypes a random draw may give *)
Definition step_proc (choices : list Z) (s : st) (k : nat) : list st :=
  match nth_error (procs s) k with
  | None => []
  | Some p =>
      let me := Z.of_nat k in
      let e := p_eth p in let t := p_table p in
      match p_pc p with
      | Idle => [set_proc s k (mk Rename E0 (-1))]                            (* the tmp dir holds the default ethertype *)
      | Rename =>
          match lockdir s with
          | None | Some [] => [upd s k (mk FRemove e t) (Some [e]) (pin s) (att s)]      (* rename succeeds: also over an EMPTY directory *)
          | Some _ => [set_proc s k (mk JOpen e t)]
          end
      | JOpen =>                                   (* one attempt of get_ethertype: open(<ethertype>.lock, 'x') *)
          match lockdir s with
          | None => [set_proc s k (mk Aborted e t)]                           (* FileNotFoundError: nothing to undo *)
          | Some files =>
              if mem e files
              then map (fun c => set_proc s k (mk JOpen c t)) choices          (* FileExistsError: draw another ethertype, try again *)
              else [upd s k (mk JGet1 e t) (Some (insert_z e files)) (pin s) (att s)]
          end
      | JGet1 => match pin s with Some o => [set_proc s k (mk Running e o)] | None => [set_proc s k (mk JGet2 e t)] end
      | JGet2 => match pin s with Some o => [set_proc s k (mk Running e o)] | None => [set_proc s k (mk JUndo e t)] end
      | JUndo => [upd s k (mk Aborted e t) (option_map (remove_z e) (lockdir s)) (pin s) (att s)]
      | FRemove => [upd s k (mk FAttach e t) (lockdir s) None (att s)]         (* an old programs file is removed *)
      | FAttach => [upd s k (mk FPin e t) (lockdir s) (pin s) (Some me)]
      | FPin => match pin s with
                | None => [upd s k (mk Running e me) (lockdir s) (Some me) (att s)]
                | Some _ => [set_proc s k (mk FUndo e t)]                      (* EEXIST *)
                end
      | FUndo => [upd s k (mk Aborted e t) None (pin s) (att s)]
      | Running => [set_proc s k (mk TRemove e t)]                            (* the participant decides to leave *)
      | TRemove =>
          match lockdir s with
          | Some files => if mem e files then [upd s k (mk TRmdir e t) (Some (remove_z e files)) (pin s) (att s)]
                          else [set_proc s k (mk Aborted e t)]
          | None => [set_proc s k (mk Aborted e t)]
          end
      | TRmdir =>
          match lockdir s with
          | Some [] => [upd s k (mk TDetach e t) None (pin s) (att s)]
          | _ => [set_proc s k (mk Done e t)]
          end
      | TDetach => [upd s k (mk TUnpin e t) (lockdir s) (pin s) None]
      | TUnpin => match pin s with
                  | Some _ => [upd s k (mk Done e t) (lockdir s) None (att s)]
                  | None => [set_proc s k (mk Aborted e t)]
                  end
      | Done | Aborted => []
      end
  end.

Definition successors (choices : list Z) (s : st) : list st :=
  concat (map (step_proc choices s) (seq 0 (length (procs s)))).

Definition init (n : nat) : st := {| lockdir := None; pin := None; att := None; procs := repeat (mk Idle E0 (-1)) n |}.

(* ---- the safety properties ---- *)
Definition pc_code (c : pc) : Z :=
  match c with Idle => 0 | Rename => 1 | JOpen => 2 | JGet1 => 3 | JGet2 => 4 | JUndo => 5 | FRemove => 6 | FAttach => 7 | FPin => 8
             | FUndo => 9 | Running => 10 | TRemove => 11 | TRmdir => 12 | TDetach => 13 | TUnpin => 14 | Done => 15 | Aborted => 16 end.
Definition installing (p : proc) : bool := let c := pc_code (p_pc p) in (6 <=? c) && (c <=? 8).
Definition running (p : proc) : bool := pc_code (p_pc p) =? 10.

(* P1: at most one participant installs the dispatcher at a time *)
Definition p1 (s : st) : bool := (length (filter installing (procs s)) <=? 1)%nat.
(* P3: running participants have distinct ethertypes *)
Fixpoint distinct (l : list Z) : bool := match l with [] => true | x :: tl => negb (mem x tl) && distinct tl end.
Definition p3 (s : st) : bool := distinct (map p_eth (filter running (procs s))).
(* P2: while a participant is running, the dispatcher it registered with is attached and its table pinned *)
Definition p2 (s : st) : bool :=
  forallb (fun p => negb (running p) ||
                    match att s, pin s with Some a, Some b => (a =? p_table p) && (b =? p_table p) | _, _ => false end) (procs s).

(* ---- encoding, for the finite exploration ---- *)
Definition enc_opt (o : option Z) : Z := match o with None => -1 | Some v => v end.
Definition enc (s : st) : list Z :=
  (match lockdir s with None => [-1] | Some l => [Z.of_nat (length l)] end) ++
  (match lockdir s with None => [0; 0; 0; 0] | Some l => map (fun c => if mem c l then 1 else 0) [0; 1; 2; 3] end) ++
  [enc_opt (pin s); enc_opt (att s)] ++
  concat (map (fun p => [pc_code (p_pc p); p_eth p; p_table p]) (procs s)).
Fixpoint list_eqb (a b : list Z) : bool :=
  match a, b with [], [] => true | x :: a', y :: b' => (x =? y) && list_eqb a' b' | _, _ => false end.
(* one number per state (every component is in [-1, 30]) *)
Definition code (s : st) : Z := fold_left (fun acc x => acc * 32 + (x + 1)) (enc s) 1.

(* breadth-first: `visited` holds the codes of all states found so far *)
Fixpoint explore (fuel : nat) (choices : list Z) (frontier : list st) (visited : ZS.t) (all : list st) : list st :=
  match fuel with
  | O => all
  | S f =>
      match frontier with
      | [] => all
      | _ =>
          let '(new, vis) :=
            fold_left (fun acc s =>
                         fold_left (fun acc' s' => let e := code s' in
                                                   if ZS.mem e (snd acc') then acc' else (s' :: fst acc', ZS.add e (snd acc')))
                                   (successors choices s) acc)
                      frontier ([], visited) in
          explore f choices new vis (new ++ all)
      end
  end.
Definition reach (n : nat) (choices : list Z) : list st := explore 400 choices [init n] (ZS.singleton (code (init n))) [init n].
Definition codes (l : list st) : ZS.t := fold_left (fun acc s => ZS.add (code s) acc) l ZS.empty.

(* run a schedule: (process, index of the successor to take) *)
Fixpoint run_sched (choices : list Z) (s : st) (sched : list (nat * nat)) : st :=
  match sched with
  | [] => s
  | (k, c) :: tl => match nth_error (step_proc choices s k) c with Some s' => run_sched choices s' tl | None => run_sched choices s tl end
  end.
