"""C18: SyncGroupBase.allocate / EBPFTerminal.allocate / AerotechBase.allocate /
SterilePacket.append_fmmu against Ecat/Alloc.v"""
import struct

from .common import Check, Err, RLE, cbool, clist, cz
from .c11 import parse_frame


def make_terminal(ec, spec):
    from ebpfcat.ebpfcat import EBPFTerminal
    from ebpfcat.terminals import AerotechBase
    kind = spec["kind"]
    if kind == "aero":
        cls = type("Aero", (AerotechBase,), {"in_size": spec["a_in"], "out_size": spec["a_out"]})
        t = cls(ec)
    else:
        t = EBPFTerminal(ec)
        t.use_fmmu = kind == "fmmu"
    t.position = spec["pos"]
    t.pdo_in_sz, t.pdo_out_sz = spec["in"], spec["out"]
    t.pdo_in_off, t.pdo_out_off = spec["inoff"], spec["outoff"]
    t.name = f"T{spec['pos']}"
    return t


class FakeDevice:
    sync_group = None

    def __init__(self, terms):
        self.terms = terms

    def get_terminals(self):
        return dict(self.terms)


class C18(Check):
    pid = "C18"
    props_file = "Props/C18.v"
    corr_imports = ["Ecat.Alloc", "Corr.C18"]
    technique = "Coq proof (invariant over the fold of terminal allocations; regions symbolic until append_fmmu) + differential correspondence with SyncGroup.allocate"
    trusted = []
    assumptions = ["terminal sizes are non-negative; Aerotech declared packet sizes are positive when the corresponding sync manager is used"]

    # case: {"terms": [spec], "groups_before": k}   (k earlier get_fmmu_addr calls on the same master)
    def corpus(self):
        T = lambda kind, i, o, rw, pos, **kw: dict(kind=kind, **{"in": i, "out": o}, rw=rw, pos=pos, inoff=0x1180, outoff=0x1100,
                                                   a_in=kw.get("a_in", 0), a_out=kw.get("a_out", 0))
        return [
            {"terms": [T("fmmu", 4, 2, True, 1001), T("fmmu", 0, 8, True, 1002), T("direct", 6, 6, True, 1003), T("fmmu", 3, 3, False, 1004)], "groups_before": 0},
            {"terms": [T("aero", 20, 30, True, 1001, a_in=8, a_out=12), T("fmmu", 5, 5, True, 1002)], "groups_before": 2},
            {"terms": [T("direct", 1472, 0, False, 1001)], "groups_before": 0},
            {"terms": [T("direct", 1473, 0, False, 1001)], "groups_before": 0},
            {"terms": [T("direct", 1474, 0, False, 1001)], "groups_before": 0},
            {"terms": [T("fmmu", 700, 760, True, 1001)], "groups_before": 1},
            {"terms": [T("fmmu", 700, 761, True, 1001)], "groups_before": 1},
            {"terms": [T("fmmu", 700, 762, True, 1001)], "groups_before": 1},
            {"terms": [T("fmmu", 0, 0, True, 1001)], "groups_before": 0},
            # a writing device listed before a reading device of the same terminal
            {"terms": [dict(T("fmmu", 4, 2, True, 1001), users=[True, False]), dict(T("direct", 3, 5, True, 1002), users=[False, True, False])], "groups_before": 0},
        ]

    def gen_cases(self):
        rng = self.rng
        out = []
        for _ in range(250 if self.tier == "quick" else 3000):
            n = rng.choice([1, 2, 3, 4, 6, 8, 12])
            big = rng.random() < 0.25
            terms = []
            for i in range(n):
                kind = rng.choice(["fmmu", "fmmu", "direct", "aero"])

                def size():
                    r = rng.random()
                    if r < 0.15:
                        return 0
                    if big:
                        return rng.choice([rng.randint(1, 800), rng.randint(100, 400), 1456 // n + rng.randint(-4, 4)])
                    return rng.randint(1, 40)
                terms.append(dict(kind=kind, **{"in": size(), "out": size()}, rw=rng.random() < 0.7, pos=1000 + 3 * i + rng.randint(0, 2),
                                  inoff=rng.choice([0x1000, 0x1180, 0x1400]), outoff=rng.choice([0x1100, 0x1200]),
                                  a_in=rng.randint(1, 60), a_out=rng.randint(1, 60)))
            if rng.random() < 0.3:
                # land exactly around the frame limit: stretch one used area
                cands = [(i, k) for i, t in enumerate(terms) for k in ("in", "out")
                         if t[k] and (k == "in" or t["rw"])]
                if cands:
                    i, k = rng.choice(cands)
                    key = ("a_" + k) if terms[i]["kind"] == "aero" else k
                    target = 1500 + rng.choice([-2, -1, 0, 0, 1, 2, 3])
                    delta = target - self.need(terms)
                    if terms[i][key] + delta > 0:
                        terms[i][key] += delta
            for t in terms:
                if rng.random() < 0.4:
                    k = rng.randint(2, 3)
                    users = [rng.random() < 0.5 for _ in range(k)]
                    if t["rw"] and not any(users):
                        users[rng.randrange(k)] = True
                    if not t["rw"]:
                        users = [False] * k
                    t["users"] = users
            out.append({"terms": terms, "groups_before": rng.choice([0, 0, 1, 5, 100, 100, 1022, 1023, 1024, 1100, 5000])})
            if rng.random() < 0.3:
                out[-1]["rejected_before"] = True
        return out

    def run_impl(self, case):
        from ebpfcat.ebpfcat import SimpleEtherCat, SyncGroup
        from ebpfcat.ethercat import SyncManager
        ec = SimpleEtherCat("verif0")
        earlier = [ec.get_fmmu_addr() for _ in range(case["groups_before"])]
        case["_nwin"] = case["groups_before"]
        if case.get("rejected_before"):
            # an earlier group of this master is allocated, then a group that does not fit is REJECTED (a directly addressed terminal
            # overflows the frame), then the master goes on: the group under test must not get the earlier group's window
            spec = dict(kind="fmmu", **{"in": 6, "out": 4}, rw=True, pos=1900, inoff=0x1180, outoff=0x1100, a_in=0, a_out=0)
            ta = make_terminal(ec, spec)
            sga = SyncGroup(ec, [FakeDevice({ta: True})])
            sga.allocate()
            earlier.append(min(v for d in sga.fmmu_maps.values() for v in d.values()) & ~0xfff)
            tb = make_terminal(ec, dict(spec, kind="direct", **{"in": 1600, "out": 0}, pos=1901))
            sgb = SyncGroup(ec, [FakeDevice({tb: False})])
            try:
                sgb.allocate()
                return Err(4, "a group needing more than 1500 bytes was not rejected")
            except OverflowError:
                pass
            case["_nwin"] += 1
        case["_earlier"] = earlier
        terms = [make_terminal(ec, s) for s in case["terms"]]
        # a terminal may be used by several devices with different access: it is written if ANY of them writes it
        # ("users": the devices' flags in the order in which the devices are listed; their disjunction is "rw")
        devs = []
        for t, s in zip(terms, case["terms"]):
            devs += [FakeDevice({t: f}) for f in s.get("users", [s["rw"]])]
        for a, b in case.get("merge", []):
            # one device using two terminals
            if a < len(devs) and b < len(devs) and a != b:
                devs[a].terms.update(devs[b].terms) if not set(devs[a].terms) & set(devs[b].terms) else None
        sg = SyncGroup(ec, devs)
        restarted = False
        bigger = [dict(s_, **{"in": s_["in"] + 3, "out": s_["out"] + 1}) for s_ in case["terms"]]
        if case["groups_before"] % 4 == 1 and self.need(bigger) <= 1300 and sum(3 for _ in bigger) <= 15 and self.need(case["terms"]) <= 1300:
            # the group object had a first life (start(), run() ended) while its terminals had OTHER process data sizes; it is then
            # started again: the frame must follow the terminals as they are now
            import asyncio

            async def first_life():
                async def nothing():
                    return None
                sg.run = nothing
                for t in terms:
                    t.pdo_in_sz, t.pdo_out_sz = (t.pdo_in_sz or 0) + 3, (t.pdo_out_sz or 0) + 1
                try:
                    await sg.start()
                    ok = True
                except OverflowError:
                    ok = False
                for t in terms:
                    t.pdo_in_sz, t.pdo_out_sz = t.pdo_in_sz - 3, t.pdo_out_sz - 1
                if ok:
                    try:
                        await sg.start()
                    except OverflowError:
                        return "overflow"
                return ok
            r = asyncio.run(first_life())
            if r == "overflow":
                case["_nwin"] += 1
                return Err(3, "overflow")
            if r:
                restarted = True
                case["_nwin"] += 1
        if not restarted:
            try:
                sg.allocate()
            except OverflowError:
                return Err(3, "overflow")
        assign = []
        for t in terms:
            row = []
            for sm in (SyncManager.IN, SyncManager.OUT):
                if sm in sg.pdo_assign[t]:
                    row.append([sg.pdo_assign[t][sm], sg.fmmu_maps[t].get(sm)])
                else:
                    row.append(None)
            assign.append(row)
        frame = bytes(sg.packet.assemble(1000, 0x88A4))
        ster = bytes(sg.packet.sterile(1000, 0x88A4))
        case["_counters"] = dict(sg.packet.counters)
        return [assign, sg.packet.size, [1, frame], [1, ster]]

    def model_value(self, case, o):
        if isinstance(o, Err):
            return o
        return [o[0], o[1], [1, RLE(o[2][1])], [1, RLE(o[3][1])]]

    def model_term(self, case):
        ts = []
        for s in case["terms"]:
            kind = {"fmmu": "KFmmu", "direct": "KDirect"}.get(s["kind"]) or f"(KAero {cz(s['a_in'])} {cz(s['a_out'])})"
            ts.append(f"{{| t_kind := {kind}; t_in := {cz(s['in'])}; t_out := {cz(s['out'])}; t_rw := {cbool(s['rw'])}; "
                      f"t_pos := {cz(s['pos'])}; t_inoff := {cz(s['inoff'])}; t_outoff := {cz(s['outoff'])} |}}")
        return f"(run {clist(ts)} (fmmu_addr {cz(case.get('_nwin', case['groups_before']) + 1)}) 1000 34980)"

    @staticmethod
    def need(terms):
        """bytes the cyclic frame of these terminals needs"""
        need = 16
        fin = fout = 0
        for s in terms:
            if s["kind"] == "fmmu":
                fin += s["in"]
                fout += s["out"] if s["rw"] else 0
            elif s["kind"] == "direct":
                need += (12 + s["in"]) if s["in"] else 0
                need += (12 + s["out"]) if s["rw"] and s["out"] else 0
            else:
                if s["in"]:
                    fin += s["a_in"]
                    need += 13
                if s["rw"] and s["out"]:
                    need += 12 + s["a_out"] + 13
        return need + (12 + fin if fin else 0) + (12 + fout if fout else 0)

    def holds(self, case, o):
        terms = case["terms"]
        need = self.need(terms)
        if isinstance(o, Err):
            ndg = sum(1 for s in terms for _ in range(3))  # crude upper bound on datagram count
            if o.code == 3 and (need > 1500 or ndg > 15):
                return True
            return f"group needing {need} bytes rejected / failed: {o.what}"
        if need > 1500:
            return f"group needing {need} bytes (> 1500) was not rejected"
        assign, size, (_, frame), (_, ster) = o
        # the logical window of this group must not be one handed to an earlier group of the same master
        logical = [x[1] for row in assign for x in row if x is not None and x[1] is not None]
        if logical:
            win = min(logical) & ~0xfff
            if win in {a & ~0xfff for a in case.get("_earlier", [])}:
                return (f"the sync group got the logical window {win:#x}, which the {[a & ~0xfff for a in case['_earlier']].index(win) + 1}. of "
                        f"{len(case['_earlier'])} earlier sync groups of this master already has")
        if size != need:
            return f"packet size {size}, layout needs {need}"
        if need == 16:
            return True   # no process data at all: nothing to reserve (frame holds the identification datagram only)
        try:
            length, dgs, padding = parse_frame(frame)
        except (ValueError, IndexError) as e:
            return f"cyclic frame does not parse: {e}"
        regions = []
        logical_base = 0x1000 * (case.get("_nwin", case["groups_before"]) + 1)
        for s, row in zip(terms, assign):
            for sm, slot in zip(("in", "out"), row):
                used = s[sm] and (sm == "in" or s["rw"])
                if bool(used) != (slot is not None):
                    return f"terminal {s['pos']} {sm}: size {s[sm]} rw {s['rw']} but slot {slot}"
                if slot is None:
                    continue
                start, logical = slot
                rsize = s["a_" + sm] if s["kind"] == "aero" else s[sm]
                regions.append((start, start + rsize, s["pos"], sm))
                host = [d for d in dgs[1:] if d["datapos"] <= start and start + rsize <= d["datapos"] + d["len"]]
                if len(host) != 1:
                    return f"terminal {s['pos']} {sm}: region [{start},{start + rsize}) is not inside one datagram's data"
                d = host[0]
                fm = s["kind"] == "fmmu" or (s["kind"] == "aero" and sm == "in")
                if fm:
                    if logical is None:
                        return f"terminal {s['pos']} {sm}: no logical address"
                    want_cmd = 10 if sm == "in" else 11
                    if d["cmd"] != want_cmd:
                        return f"terminal {s['pos']} {sm}: region in datagram with command {d['cmd']}"
                    if logical - d["addr"] != start - d["datapos"]:
                        return f"terminal {s['pos']} {sm}: logical {logical:#x} does not map to frame offset {start} (datagram logical {d['addr']:#x} at {d['datapos']})"
                    lo = logical_base + (0 if sm == "in" else 0x800)
                    if not (lo <= logical and logical + rsize <= lo + 0x800):
                        return f"terminal {s['pos']} {sm}: logical range outside the group's window"
                else:
                    if logical is not None:
                        return "direct terminal got a logical address"
                    want_cmd = 4 if sm == "in" else 5
                    off = s["inoff"] if sm == "in" else s["outoff"]
                    if (d["cmd"], d["addr"], d["len"], d["datapos"]) != (want_cmd, s["pos"] + 65536 * off, rsize, start):
                        return f"terminal {s['pos']} {sm}: datagram {d} does not address its {sm} area exactly"
        regions.sort()
        for a, b in zip(regions, regions[1:]):
            if a[1] > b[0]:
                return f"regions overlap: {a} and {b}"
        # working counter presets
        for d in dgs[1:]:
            if d["cmd"] in (10, 11):
                n = sum(1 for s, row in zip(terms, assign) if row[0 if d["cmd"] == 10 else 1] is not None and row[0 if d["cmd"] == 10 else 1][1] is not None)
                if d["wkc"] != n:
                    return f"logical datagram expects {d['wkc']} terminals, {n} are mapped"
        return True

    def nontrivial(self, case, o):
        return not isinstance(o, Err) and sum(1 for row in o[0] for s in row if s is not None) >= 2

    def search_cases(self):
        out = []
        T = lambda kind, i, o, rw, pos: dict(kind=kind, **{"in": i, "out": o}, rw=rw, pos=pos, inoff=0x1180, outoff=0x1100, a_in=7, a_out=9)
        for kind in ("fmmu", "direct", "aero"):
            for total in range(1440, 1480):
                out.append({"terms": [T(kind, total, 0, True, 1001)], "groups_before": 0})
                out.append({"terms": [T(kind, total // 2, total - total // 2, True, 1001)], "groups_before": 0})
                out.append({"terms": [T(kind, 5, 5, True, 1001), T("fmmu", total - 40, 3, True, 1002)], "groups_before": 3})
        return out

    def rule(self):
        return ("terminal sets of 1-12 terminals: FMMU / direct / Aerotech-style allocators, in/out sizes 0..800 (15% zero; 25% of sets sized to land near the "
                "1500-byte limit), read-write flags (40% of the terminals are used by 2-3 devices with different access, the terminal is written if any of them writes), 0..5000 earlier sync groups on the same master (their logical windows must stay distinct), 30% with an allocated group and then a REJECTED group before the one under test; a quarter of the (small enough) cases through start(): the group object had a first life while its terminals had other process data sizes and is started again; non-trivial = at least two regions allocated")

    def distribution(self, cases, observed):
        d = {"rejected": 0, "terminals": 0, "aero": 0, "direct": 0, "fmmu": 0}
        for c, o in zip(cases, observed):
            d["rejected"] += isinstance(o, Err)
            d["terminals"] += len(c["terms"])
            for s in c["terms"]:
                d[s["kind"]] += 1
        return d


CHECK = C18
