From Verif Require Import Lib.Base Gen.Layout.
(* stable sort by size, descending (list.sort(key=size, reverse=True) keeps the order of equal sizes) *)
Fixpoint insert_desc (x : nat * Z) (l : list (nat * Z)) : list (nat * Z) :=
  match l with
  | [] => [x]
  | y :: tl => if snd y <=? snd x then x :: l else y :: insert_desc x tl
  end.
Fixpoint sort_desc (l : list (nat * Z)) : list (nat * Z) :=
  match l with [] => [] | x :: tl => insert_desc x (sort_desc tl) end.
Fixpoint index_from (k : nat) (l : list Z) : list (nat * Z) :=
  match l with [] => [] | x :: tl => (k, x) :: index_from (S k) tl end.
Fixpoint lookup (k : nat) (l : list (nat * Z)) : Z :=
  match l with [] => -1 | (j, p) :: tl => if Nat.eqb j k then p else lookup k tl end.

Definition collect (sizes : list Z) : list Z :=
  (* note: insertion from the right keeps equal sizes in their original order *)
  let sorted := sort_desc (index_from 0 sizes) in
  let pos := positions 0 (map snd sorted) in
  let byidx := combine (map fst sorted) (map fst pos) in
  map (fun k => lookup k byidx) (seq 0 (length sizes)).

Definition layout (main_sizes : list Z) (subs : list (list Z)) (arr_sizes : list Z) (scratch_size : Z) : V :=
  let '(mv, st) := alloc_locals 0 main_sizes in
  VL [VL (map (fun r => VZ (fst r)) mv);
      VL (map (fun sizes => VL (map (fun r => VZ (sub_local st (fst r))) (fst (alloc_locals 0 sizes)))) subs);
      VL (map VZ (collect arr_sizes));
      VZ (scratch st scratch_size)].

(* a declaration list mixing locals and Dict structures: addresses in declaration order (key, value for a Dict), scratch below *)
Definition layout_items (l : list item) (scratch_size : Z) : V :=
  let '(rs, st) := alloc_items 0 l in
  VL [VL (map (fun r => VZ (fst r)) rs); VZ (scratch st scratch_size)].

(* bit-field variables sharing bytes of a packet: the final packet after a list of field stores *)
From Verif Require Import Gen.BitField.
Definition run_bits (pkt : list Z) (ops : list bop) : V := VB (fold_left bstep ops pkt).
