(* EtherCat.roundtrip: how positional arguments (format strings and values)
   and the `data` keyword become the datagram payload, and how the response
   is decoded.  Transliteration of ebpfcat/ethercat.py:roundtrip. *)
From Verif Require Export Lib.Struct.

Inductive arg := AFmt (f : fmt) | AVal (v : sval).
Inductive rawdata := DNone | DCount (n : nat) | DBytes (l : list Z).

Definition fmts_of (l : list arg) : fmt :=
  flat_map (fun a => match a with AFmt f => f | AVal _ => [] end) l.
Definition vals_of (l : list arg) : list sval :=
  flat_map (fun a => match a with AVal v => [v] | AFmt _ => [] end) l.

(* `args and isinstance(args[-1], str)` *)
Definition trailing (args : list arg) : fmt :=
  match args with
  | [] => []
  | _ => match last args (AVal (SInt 0)) with AFmt f => f | AVal _ => [] end
  end.

(* fmt = "<" + "".join(str args of args[:-1]) ; later fmt += args[-1] *)
Definition rt_fmt (args : list arg) : fmt := fmts_of (removelast args) ++ trailing args.

Definition raw_bytes (d : rawdata) : list Z :=
  match d with DNone => [] | DCount n => zeros n | DBytes l => l end.
Definition raw_len (d : rawdata) : nat := length (raw_bytes d).

(* the bytes put on the send queue; None = struct.error *)
Definition rt_out (args : list arg) (d : rawdata) : option (list Z) :=
  match pack (fmts_of (removelast args)) (vals_of args) with
  | None => None
  | Some p => Some (p ++ zeros (calcsize (trailing args)) ++ raw_bytes d)
  end.

Inductive rt_result :=
| RFields (vs : list sval)                     (* data is None *)
| RFieldsRaw (vs : list sval) (raw : list Z)   (* args and data *)
| RRaw (raw : list Z).                         (* no args *)

(* the value returned for the response bytes `ret`; None = struct.error *)
Definition rt_ret (args : list arg) (d : rawdata) (ret : list Z) : option rt_result :=
  match d with
  | DNone => option_map RFields (unpack (rt_fmt args) ret)
  | _ =>
      match args with
      | [] => Some (RRaw ret)
      | _ =>
          let k := (length ret - raw_len d)%nat in
          option_map (fun vs => RFieldsRaw vs (skipn k ret)) (unpack (rt_fmt args) (firstn k ret))
      end
  end.
