(* C11 Assembled EtherCAT frames are well-formed with exact datagram positions.
   Model: Ecat/Frame.v (Packet.append/assemble, constants regenerated from the
   source).  Specification: the independent parser parse_frame (ETG.1000.4). *)
From Verif Require Import Ecat.Frame Ecat.Frame_proofs Ecat.Sterile_proofs.

(* every accepted, non-empty datagram sequence assembles to a frame that the
   independent parser reads back as: header length = payload length, the
   identification datagram, then each datagram with its command, index,
   address, data length, `more` flag on all but the last, data and working
   counter, the data starting exactly at the positions append reported;
   padded to the Ethernet minimum; never larger than MAXSIZE *)
Theorem C11_wellformed : forall ds p poss index ethertype f,
  appends empty_packet ds = Some (p, poss) -> ds <> [] ->
  assemble p index ethertype = Some f ->
  parse_frame f = Some (p_size p - 2, id_spec index ethertype :: specs 16 ds,
                        repeat pad_byte (Z.to_nat (Packet_minpayload - p_size p))) /\
  zlen f = Z.max Packet_minpayload (p_size p) /\ p_size p <= Packet_MAXSIZE /\
  poss = map (fun s => (s_datapos s, s_datapos s + s_len s)) (specs 16 ds).
Proof. exact frame_wellformed. Qed.
Print Assumptions C11_wellformed.

(* a datagram is rejected exactly when it does not fit (size or count) *)
Theorem C11_rejects : forall p d, append p d = None <->
  (p_size p + zlen (d_data d) + Packet_DATAGRAM_HEADER + Packet_DATAGRAM_TAIL > Packet_MAXSIZE \/
   zlen (p_data p) > Packet_append_maxcount).
Proof. exact append_rejects. Qed.
Print Assumptions C11_rejects.

(* the sterile copy IS the frame assembled from the same datagrams with the
   command of every write datagram replaced by NOP (so, by C11_wellformed, it
   is a well-formed frame differing only in those command bytes) *)
Theorem C11_sterile : forall ops s index ethertype f,
  s_appends empty_s ops = Some s -> assemble (sp s) index ethertype = Some f ->
  sterile s index ethertype =
    assemble {| p_data := map nop_if ops; p_size := p_size (sp s) |} index ethertype /\
  exists f', sterile s index ethertype = Some f' /\ length f' = length f.
Proof. exact sterile_is_nop. Qed.
Print Assumptions C11_sterile.

(* the limits the source states are the ones the theorem is about *)
Example C11_limits : Packet_MAXSIZE = 1500 /\ Packet_minpayload = 46 /\ Packet_PACKET_HEADER = 16.
Proof. repeat split. Qed.

Example C11_nonvacuous :
  let d1 := {| d_cmd := 4; d_data := [1;2;3]; d_wkc := 0; d_idx := 7; d_addr := [1000; 16] |} in
  let d2 := {| d_cmd := 10; d_data := [9]; d_wkc := 2; d_idx := 0; d_addr := [65536] |} in
  option_map snd (appends empty_packet [d1; d2]) = Some [(26, 29); (41, 42)] /\
  match appends empty_packet [d1; d2] with
  | Some (p, _) => option_map zlen (assemble p 5 34980)
  | None => None
  end = Some 46.
Proof. vm_compute. split; reflexivity. Qed.
