"""C11: Packet.append / assemble / SterilePacket.sterile vs Ecat/Frame.v"""
import struct

from .common import Check, Err, RLE, cbool, clist, cz, czlist

POS_CMDS = [1, 2, 3, 4, 5, 6, 7, 8, 9, 13, 14]
LOG_CMDS = [10, 11, 12]
WRITE_CMDS = {2, 5, 8, 11}


def parse_frame(f):
    """independent EtherCAT frame parser (ETG.1000.4), returns
    (length, [dict per datagram], padding)"""
    hdr = f[0] | f[1] << 8
    length, typ = hdr & 0x7ff, hdr >> 12
    if typ != 1 or (hdr >> 11) & 1:
        raise ValueError("bad frame header")
    if len(f) < 2 + length:
        raise ValueError("frame shorter than header length")
    pos, end, out = 2, 2 + length, []
    while True:
        if pos + 12 > end:
            raise ValueError("datagram header beyond payload")
        cmd, idx = f[pos], f[pos + 1]
        addr = int.from_bytes(f[pos + 2:pos + 6], "little")
        lf = f[pos + 6] | f[pos + 7] << 8
        irq = f[pos + 8] | f[pos + 9] << 8
        n, more = lf & 0x7ff, bool(lf >> 15)
        if pos + 12 + n > end:
            raise ValueError("datagram data beyond payload")
        out.append(dict(cmd=cmd, idx=idx, addr=addr, len=n, more=more, irq=irq, flags=lf & 0x7800,
                        datapos=pos + 10, data=bytes(f[pos + 10:pos + 10 + n]),
                        wkc=f[pos + 10 + n] | f[pos + 11 + n] << 8))
        pos += 12 + n
        if not more:
            break
    if pos != end:
        raise ValueError("datagrams do not fill the payload")
    return length, out, bytes(f[end:])


class C11(Check):
    pid = "C11"
    props_file = "Props/C11.v"
    corr_imports = ["Ecat.Frame", "Corr.C11"]
    technique = "Coq proof (induction over the datagram list against an independent frame parser; finite sweeps for the 11-bit length word) + differential correspondence with Packet/SterilePacket"
    trusted = ["the frame grammar in parse_frame (Coq) / harness parser (Python) written from ETG.1000.4"]
    assumptions = ["at least one datagram was accepted (the empty frame's identification datagram carries M=1)"]

    # case: {"ops": [(writer, cmd, data, wkc, idx, addr tuple)], "index": int, "ethertype": int}
    def corpus(self):
        big = bytes(1472)
        return [
            {"ops": [(False, 4, b"\1\2\3", 0, 7, (1000, 0x10))], "index": 5, "ethertype": 0x88A4},
            {"ops": [(True, 5, big, 1, 0, (1000, 0x10))], "index": 5, "ethertype": 0x88A4},
            {"ops": [(True, 5, big + b"\0", 1, 0, (1000, 0x10))], "index": 5, "ethertype": 0x88A4},
            {"ops": [(False, 4, bytes(700), 1, 0, (1000, 0x10)), (True, 11, bytes(760), 1, 0, (0x10000,))], "index": 9, "ethertype": 0x3456},
            {"ops": [(False, 4, bytes(700), 1, 0, (1000, 0x10)), (True, 11, bytes(761), 1, 0, (0x10000,))], "index": 9, "ethertype": 0x3456},
            {"ops": [(i % 2 == 0, 5 if i % 2 == 0 else 4, b"", i, i, (-i, 0x130)) for i in range(17)], "index": 1000, "ethertype": 0x88A4},
            {"ops": [(False, 1, b"\0\0", 0, 0, (0, 0x10))], "index": 2000, "ethertype": 0x88A4},
            {"ops": [(False, 4, b"\1\2", 1, 3, (1001, 0x130)), (True, 5, b"\7", 1, 4, (1002, 0x120)), (False, 4, b"\1\2", 1, 3, (1001, 0x130))],
             "index": 7, "ethertype": 0x88A4},
        ]

    def rand_op(self, rng, remaining):
        logical = rng.random() < 0.3
        cmd = rng.choice(LOG_CMDS if logical else POS_CMDS)
        r = rng.random()
        if r < 0.25:
            n = rng.randint(0, 8)
        elif r < 0.55:
            n = rng.randint(0, 120)
        elif r < 0.8:
            n = max(0, remaining - 12 + rng.randint(-3, 3))   # around the boundary
        else:
            n = rng.randint(0, 1500)
        data = bytes(rng.randrange(256) for _ in range(min(n, 8))) + bytes(max(0, n - 8))
        addr = (rng.choice([0, 0x1000, 0x7fffffff, rng.randrange(1 << 31), -rng.randrange(1 << 31)]),) if logical else \
            (rng.choice([0, -1, -32768, 32767, rng.randint(-300, 30000)]), rng.choice([0, 0x10, 0x130, 0xffff, rng.randrange(1 << 16)]))
        return (cmd in WRITE_CMDS or rng.random() < 0.1, cmd, data, rng.choice([0, 1, 2, 0xffff, rng.randrange(1 << 16)]),
                rng.randrange(256), addr)

    def gen_cases(self):
        rng = self.rng
        n = 160 if self.tier == "quick" else 2500
        out = []
        for _ in range(n):
            ops, size = [], 16
            for _ in range(rng.choice([1, 1, 2, 3, 5, 8, 15, 16, 18])):
                op = self.rand_op(rng, 1500 - size)
                ops.append(op)
                if size + len(op[2]) + 12 <= 1500 and len([o for o in ops[:-1]]) <= 15:
                    size += len(op[2]) + 12
            if len(ops) >= 2 and rng.random() < 0.3:
                # identical datagrams in one frame (two tasks issuing the same request): as the last one, in the middle, twice
                k = rng.randrange(len(ops) - 1)
                ops[-1] = ops[k]
                if rng.random() < 0.3:
                    ops[rng.randrange(len(ops))] = ops[k]
            out.append({"ops": ops, "index": rng.choice([0, 1000, rng.randrange(2000, 10 ** 9), 2 ** 31 - 1]),
                        "ethertype": rng.choice([0x88A4, rng.randrange(0x3000, 0x6000)])})
            if len(ops) > 1 and rng.random() < 0.3:
                out[-1]["mid"] = rng.randrange(1, len(ops))
        # malformed stream: field values struct cannot pack
        for _ in range(n // 12):
            bad = rng.choice([(False, 300, b"", 0, 0, (0, 0)), (False, 4, b"", 70000, 0, (0, 0)),
                              (False, 4, b"", 0, 256, (0, 0)), (False, 4, b"", 0, 0, (40000, 0)),
                              (False, 10, b"", 0, 0, (1 << 31,)), (False, 4, b"", 0, 0, (0, 70000))])
            out.append({"ops": [self.rand_op(rng, 500), bad], "index": 77, "ethertype": 0x88A4})
        return out

    def run_impl(self, case):
        from ebpfcat.ethercat import Packet, ECCmd
        from ebpfcat.ebpfcat import SterilePacket
        p, s = Packet(), SterilePacket()
        outs = []
        for opno, (w, cmd, data, wkc, idx, addr) in enumerate(case["ops"]):
            if opno and opno == case.get("mid"):
                # the packet is assembled (and a sterile copy made) half way, then more datagrams are appended
                try:
                    p.assemble(case["index"], case["ethertype"])
                    s.sterile(case["index"], case["ethertype"])
                except Exception:      # noqa
                    pass
            c = ECCmd(cmd) if cmd in ECCmd._value2member_map_ else _FakeCmd(cmd)
            try:
                a, b = p.append(c, data, idx, *addr, wkc=wkc)
                rejected = False
            except OverflowError:
                rejected = True
            # the sterile packet gets the same datagram, also when it is going to be rejected: the packet is used further afterwards
            try:
                if w:
                    s.append_writer(c, data, idx, *addr, counter=wkc)
                else:
                    s.append(c, data, idx, *addr, counter=wkc)
                srejected = False
            except OverflowError:
                srejected = True
            if rejected != srejected:
                return Err(4, f"Packet {'rejected' if rejected else 'accepted'} datagram {len(outs)}, SterilePacket {'rejected' if srejected else 'accepted'} it")
            outs.append(Err(3, "overflow") if rejected else [a, b])
        try:
            frame = bytes(p.assemble(case["index"], case["ethertype"]))
        except struct.error:
            frame = None
        try:
            ster = bytes(s.sterile(case["index"], case["ethertype"]))
        except struct.error:
            ster = None
        except Exception as ex:      # noqa
            return Err(4, f"sterile() raised {type(ex).__name__}: {ex}")
        assert s.size == p.size
        otf = [[a, b, c.value] for a, b, c in s.on_the_fly]
        case["_counters"] = dict(s.counters)
        return [outs, None if frame is None else [1, frame], None if ster is None else [1, ster],
                bool(p.full()), p.size, otf]

    def model_value(self, case, o):
        if isinstance(o, Err):
            return o
        o = list(o)
        for k in (1, 2):
            if o[k] is not None:
                o[k] = [1, RLE(o[k][1])]
        return o

    def model_term(self, case):
        ops = []
        for w, cmd, data, wkc, idx, addr in case["ops"]:
            k = len(data.rstrip(b"\0"))
            cdata = f"({czlist(data[:k])} ++ zeros {len(data) - k}%nat)"
            ops.append(f"({cbool(w)}, {{| d_cmd := {cz(cmd)}; d_data := {cdata}; d_wkc := {cz(wkc)}; "
                       f"d_idx := {cz(idx)}; d_addr := {czlist(addr)} |}})")
        return f"(run {clist(ops)} {cz(case['index'])} {cz(case['ethertype'])})"

    @staticmethod
    def packable(op):
        w, cmd, data, wkc, idx, addr = op
        ok = 0 <= cmd < 256 and 0 <= idx < 256 and 0 <= wkc < 65536
        if len(addr) == 2:
            return ok and -32768 <= addr[0] < 32768 and 0 <= addr[1] < 65536
        return ok and -2 ** 31 <= addr[0] < 2 ** 31

    def holds(self, case, o):
        if isinstance(o, Err):
            return f"harness error {o.what}"
        outs, frame, ster, full, size, otf = o
        # which appends must have been accepted
        sz, cnt, accepted = 16, 0, []
        for op, r in zip(case["ops"], outs):
            fits = sz + len(op[2]) + 12 <= 1500 and cnt <= 14
            if fits != (not isinstance(r, Err)):
                return f"datagram of {len(op[2])} bytes at size {sz}, count {cnt}: fits={fits} but append said {r!r}"
            if fits:
                if r != [sz + 10, sz + 10 + len(op[2])]:
                    return f"append reported {r}, data really goes to {[sz + 10, sz + 10 + len(op[2])]}"
                accepted.append((op, r))
                sz += len(op[2]) + 12
                cnt += 1
        if size != sz:
            return f"packet size {size} != {sz}"
        if not accepted:
            return True
        allpack = all(self.packable(op) for op, _ in accepted) and -2 ** 31 <= case["index"] < 2 ** 31
        if frame is None:
            return True if not allpack else "assemble failed on packable datagrams"
        frame = frame[1]
        if len(frame) != max(46, sz) or sz > 1500:
            return f"frame length {len(frame)} for size {sz}"
        try:
            length, dgs, padding = parse_frame(frame)
        except (ValueError, IndexError) as e:
            return f"frame does not parse: {e}"
        if length != sz - 2:
            return f"header length {length} != payload {sz - 2}"
        if len(dgs) != len(accepted) + 1:
            return f"{len(dgs)} datagrams in frame, expected {len(accepted) + 1}"
        d0 = dgs[0]
        if (d0["cmd"], d0["idx"], d0["addr"], d0["len"], d0["data"], d0["wkc"], d0["irq"]) != \
                (0, 0, case["index"] % 2 ** 32, 2, struct.pack("<H", case["ethertype"]), 0, 0):
            return f"identification datagram wrong: {d0}"
        for k, ((op, (a, b)), d) in enumerate(zip(accepted, dgs[1:])):
            w, cmd, data, wkc, idx, addr = op
            a32 = (addr[0] % 65536 + 65536 * addr[1]) if len(addr) == 2 else addr[0] % 2 ** 32
            want = dict(cmd=cmd, idx=idx, addr=a32, len=len(data), more=k < len(accepted) - 1, irq=0, flags=0,
                        datapos=a, data=data, wkc=wkc)
            if d != want:
                return f"datagram {k}: frame has {d}, expected {want}"
            if frame[a:b] != data or frame[b:b + 2] != struct.pack("<H", wkc):
                return f"datagram {k}: data/wkc not at reported positions"
        if ster is None:
            return "sterile failed where assemble succeeded"
        ster = ster[1]
        diffs = [i for i in range(max(len(ster), len(frame))) if ster[i:i + 1] != frame[i:i + 1]]
        wpos = [a - 10 for (op, (a, b)) in accepted if op[0] and op[1] != 0]
        if len(ster) != len(frame) or diffs != wpos or any(ster[i] != 0 for i in wpos):
            return f"sterile copy differs at {diffs}, write datagram command bytes are at {wpos}"
        return True

    def nontrivial(self, case, o):
        return not isinstance(o, Err) and any(not isinstance(r, Err) for r in o[0])

    def search_cases(self):
        out = []
        for n in list(range(1466, 1480)) + [0, 1, 2, 33, 34]:
            out.append({"ops": [(True, 5, bytes(n), 1, 0, (1000, 0x10))], "index": 5, "ethertype": 0x88A4})
            out.append({"ops": [(False, 4, bytes(700), 1, 0, (1000, 0x10)), (True, 11, bytes(max(0, n - 712)), 1, 0, (0x10000,))],
                        "index": 5, "ethertype": 0x88A4})
        for k in range(12, 19):
            out.append({"ops": [(i % 2 == 0, 5, b"ab", 1, i, (i, 0x10)) for i in range(k)], "index": 5, "ethertype": 0x88A4})
        return out

    def rule(self):
        return ("datagram sequences of 1-18 appends (position/node and logical addressing, all commands, data lengths 0..1500 with 25% placed "
                "within +-3 bytes of the remaining room, random wkc presets/idx), writer flags for the sterile copy; 30%: the packet is assembled and a sterile copy made half way, then more datagrams are appended; a separate malformed stream "
                "with unpackable field values. Non-trivial = at least one datagram accepted; distinct by content")

    def distribution(self, cases, observed):
        d = {"appends": 0, "rejected": 0, "frames_over_1400": 0, "frames_padded": 0, "unpackable": 0}
        for c, o in zip(cases, observed):
            if isinstance(o, Err):
                continue
            d["appends"] += len(o[0])
            d["rejected"] += sum(isinstance(r, Err) for r in o[0])
            d["frames_over_1400"] += o[4] > 1400
            d["frames_padded"] += o[4] < 46
            d["unpackable"] += o[1] is None
        return d

    def describe(self, case):
        return {"ops": [[w, cmd, {"len": len(data), "head": data[:8].hex()}, wkc, idx, list(addr)] for w, cmd, data, wkc, idx, addr in case["ops"]],
                "index": case["index"], "ethertype": case["ethertype"], **({"mid": case["mid"]} if case.get("mid") else {})}

    def case_from_json(self, w):
        ops = []
        for wr, cmd, data, wkc, idx, addr in w["ops"]:
            head = bytes.fromhex(data["head"])
            ops.append((wr, cmd, head + bytes(data["len"] - len(head)), wkc, idx, tuple(addr)))
        return {"ops": ops, "index": w["index"], "ethertype": w["ethertype"], **({"mid": w["mid"]} if w.get("mid") else {})}


class _FakeCmd:
    def __init__(self, v):
        self.value = v


CHECK = C11
