(* SyncGroup.update_devices and the body of SyncGroupBase.run: what a slow
   sync group does with one response frame. *)
From Verif Require Export Lib.Bytes.

(* 16-bit little-endian word at byte position pos *)
Definition word_at (f : list Z) (pos : nat) : Z := nth pos f 0 + 256 * nth (S pos) f 0.

Fixpoint set_byte (n : nat) (v : Z) (l : list Z) : list Z :=
  match l, n with
  | [], _ => []
  | _ :: tl, O => v :: tl
  | x :: tl, S k => x :: set_byte k v tl
  end.

Definition clear_word (f : list Z) (pos : nat) : list Z := set_byte (S pos) 0 (set_byte pos 0 f).

(* counters: (position of the working counter in the frame, expected count) *)
Definition count_errors (counters : list (nat * Z)) (resp : list Z) : Z :=
  zlen (filter (fun c => negb (word_at resp (fst c) =? snd c)) counters).

Definition clear_counters (counters : list (nat * Z)) (resp : list Z) : list Z :=
  fold_left (fun f c => clear_word f (fst c)) counters resp.

(* what the devices do to current_data: byte patches (position, value) *)
Definition apply_patches (patches : list (nat * Z)) (f : list Z) : list Z :=
  fold_left (fun f p => set_byte (fst p) (snd p) f) patches f.

(* update_devices: returns (number of new wkc errors, what the devices see,
   the frame sent next) *)
Definition update_devices (counters : list (nat * Z)) (resp : list Z)
           (dev : list Z -> list (nat * Z)) : Z * list Z * list Z :=
  let seen := clear_counters counters resp in
  (count_errors counters resp, seen, apply_patches (dev seen) seen).
