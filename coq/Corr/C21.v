From Verif Require Import Lib.Base Ecat.Dispatch Ecat.UserLoop.
(* the first n cyclic frames the user-space loop of a fast group sends, given what came back (or did not) for each of them *)
Definition run_uloop (n : nat) (asm : list Z) (evs : list uev) : V := VL (map VB (firstn n (u_sent (uloop asm evs)))).
