From Verif Require Import Lib.Base Sys.Cancel.
Definition v_ev (e : ev) : V :=
  match e with
  | FmmuSet t k => VL [VZ 0; VZ (Z.of_nat t); VZ (Z.of_nat k)]
  | AlWrite t v => VL [VZ 1; VZ (Z.of_nat t); VZ v]
  | Frame => VL [VZ 2] | Reg => VL [VZ 3] | Unreg => VL [VZ 4]
  end.
Definition run (f : bool) (rws : list bool) (pre : list ev) : V :=
  let c := {| fast := f; rw := rws |} in
  match track c (start c) pre with
  | None => VErr 6
  | Some s => VL (map v_ev (cleanup c s))
  end.
